import C2paModel.Base
import C2paModel.Model.C06
/-
C05 — model of `CertificateTrustPolicy::check_certificate_trust`
(sdk/src/crypto/cose/certificate_trust_policy.rs), of the control flow of both backends
(`certificate_trust/openssl.rs`, `certificate_trust/rust_native.rs`), of the allow-list loader
`add_end_entity_credentials`, and of `Verifier::verify_trust` (sdk/src/crypto/cose/verifier.rs).

Oracles (not modelled): whether a certificate chains to a set of anchors at a given time —
OpenSSL's `X509_verify_cert` with X509_STRICT | PARTIAL_CHAIN, resp. the hand-written chain walk
of the rust_native backend — is the input `sysValid` / `userValid`; SHA-256 / base64 / PEM decoding
give the `certHash`, the `b64ok` flag of a line and the list of PEM block hashes.
-/
namespace C2pa.C05

open C2pa.C06 (Eku hasAllowedEku Mode Trust)

/-- `TrustAnchorType` -/
inductive Anchor | system | user | endEntity | noCheck
  deriving DecidableEq, Repr

/-- `CertificateTrustError` -/
inductive TrustErr | certificateNotTrusted | invalidEku | cryptoLibraryError | invalidCertificate
  deriving DecidableEq, Repr

/-- One line of the text handed to `add_end_entity_credentials`: its text, whether it contains
`-----BEGIN` / `-----END`, and `b64ok` = `base64::decode(&line).is_ok()`. -/
structure Line where
  text : String
  isBegin : Bool := false
  isEnd : Bool := false
  b64ok : Bool := false
  deriving DecidableEq, Repr

/-- `inside_pem_block` after looking at a line: BEGIN sets it, END (tested second) clears it. -/
def nextInside (l : Line) (inside : Bool) : Bool :=
  if l.isEnd then false else if l.isBegin then true else inside

/-- The first loop of `add_end_entity_credentials`: stand-alone 44-character base64 lines
outside PEM blocks are taken as certificate hashes. Returns the collected hashes. -/
def scanLines : List Line → Bool → List String
  | [], _ => []
  | l :: ls, inside =>
    if !(nextInside l inside) && l.text.length == 44 && l.b64ok then
      l.text :: scanLines ls (nextInside l inside)
    else scanLines ls (nextInside l inside)

/-- `add_end_entity_credentials`: hash lines, then the hash of every PEM block (`pemHashes` =
`base64(sha256(der))` of the blocks `Pem::iter_from_buffer` yields). -/
def loadAllowList (lines : List Line) (pemHashes : List String) : List String :=
  scanLines lines false ++ pemHashes

/-- The second loop of `add_end_entity_credentials` over what `Pem::iter_from_buffer` yields
(`none` = `Err(_)`: a block that is present but invalid, e.g. a body that is not base64). The first
`Err` ends the function with `Err`; the hashes of the blocks before it were already inserted.
Returns (`is_ok()`, inserted hashes). -/
def loadPems : List (Option String) → Bool × List String
  | [] => (true, [])
  | none :: _ => (false, [])
  | some h :: rest => ((loadPems rest).1, h :: (loadPems rest).2)

/-- `add_end_entity_credentials` with its failure path: the hash lines of the first loop are
inserted whatever the PEM loop does afterwards. Returns (`is_ok()`, what the set gained). -/
def loadAllowListR (lines : List Line) (pems : List (Option String)) : Bool × List String :=
  ((loadPems pems).1, scanLines lines false ++ (loadPems pems).2)

/-- `add_trust_anchors` / `add_user_trust_anchors` over the PEM blocks of the text (`true` = the
iterator yields `Ok`): DERs are pushed until the first `Err`. Returns (`is_ok()`, number pushed). -/
def loadAnchors : List Bool → Bool × Nat
  | [] => (true, 0)
  | false :: _ => (false, 0)
  | true :: rest => ((loadAnchors rest).1, (loadAnchors rest).2 + 1)

/-- `add_valid_ekus`: the lines `Oid::from_str` accepts (flag `b64ok` of `Line` is reused as
"parses as an OID"). -/
def loadEkus (lines : List Line) : List String :=
  (lines.filter (·.b64ok)).map (·.text)

structure Policy where
  passthrough : Bool := false
  /-- `end_entity_cert_set` -/
  allowSet : List String := []
  /-- number of `trust_anchor_ders` / `user_trust_anchor_ders` -/
  nSys : Nat := 0
  nUser : Nat := 0
  anchorsOnly : Bool := false
  /-- `additional_ekus` -/
  allowedEkus : List String := []
  deriving DecidableEq, Repr

/-- The `trust` section of the settings as `Store::from_context` reads it (`none` = the setting
is absent). Anchor texts are given as the list of their PEM blocks (`true` = decodable PEM). -/
structure TrustSettings where
  trustAnchors : Option (List Bool) := none
  userAnchors : Option (List Bool) := none
  trustConfig : Option (List Line) := none
  allowedList : Option (List Line × List (Option String)) := none
  deriving Repr

/-- `Store::from_context`: `CertificateTrustPolicy::default()` (the built-in EKU list `defaults`,
no anchors outside `cfg(test)`) plus each present setting, every `Err` ignored (`let _v = …`).
No setting selects passthrough or trust-anchors-only. -/
def fromContext (defaults : List String) (s : TrustSettings) : Policy :=
  { passthrough := false
    allowSet := match s.allowedList with
      | none => []
      | some (ls, ps) => (loadAllowListR ls ps).2
    nSys := match s.trustAnchors with
      | none => 0
      | some bs => (loadAnchors bs).2
    nUser := match s.userAnchors with
      | none => 0
      | some bs => (loadAnchors bs).2
    anchorsOnly := false
    allowedEkus := defaults ++ (match s.trustConfig with
      | none => []
      | some ls => loadEkus ls) }

/-- What is known about the credential being judged. -/
structure Query where
  /-- `base64(sha256(end_entity_cert_der))` -/
  certHash : String := ""
  /-- x509-parser decodes the end-entity certificate -/
  eeParses : Bool := true
  /-- every DER of the chain and the certificate handed to OpenSSL's `X509::from_der` parses; a
  failure is `CryptoLibraryError` -/
  chainParses : Bool := true
  sysAnchorsParse : Bool := true
  userAnchorsParse : Bool := true
  /-- the end-entity certificate's EKU extension as x509-parser sees it (`none` = absent or
  undecodable) -/
  eku : Option Eku := none
  /-- oracle: the chain verifies against the system / user anchor store at the signing time -/
  sysValid : Bool := false
  userValid : Bool := false
  deriving DecidableEq, Repr

/-- The EKU gate both backends apply after the empty-anchor test. -/
def ekuGate (p : Policy) (q : Query) : Option TrustErr :=
  if !q.eeParses then some .invalidCertificate
  else
    match q.eku with
    | none => some .invalidEku
    | some e => if hasAllowedEku p.allowedEkus e then none else some .invalidEku

/-- `certificate_trust::openssl::check_certificate_trust` -/
def opensslCheck (p : Policy) (q : Query) : Except TrustErr Anchor :=
  if p.nSys == 0 && p.nUser == 0 then .error .certificateNotTrusted
  else
    match ekuGate p q with
    | some e => .error e
    | none =>
    if !q.chainParses then .error .cryptoLibraryError
    else if !q.sysAnchorsParse then .error .cryptoLibraryError
    else if q.sysValid then .ok .system
    else if !p.anchorsOnly then
      if !q.userAnchorsParse then .error .cryptoLibraryError
      else if q.userValid then .ok .user
      else .error .certificateNotTrusted
    else .error .certificateNotTrusted

/-- `certificate_trust::rust_native::check_certificate_trust` as far as its control flow goes:
`sysValid` / `userValid` stand for "some certificate of the (ordered, internally consistent) chain
is issued and correctly signed by a system / user anchor, and no certificate walked before it was
outside its validity window". The walk goes from the last certificate of the chain to the first and
tries the system anchors, then (unless anchors-only) the user anchors, *at each certificate*: when
both stores would verify, the kind of anchor reported depends on the positions, which this
control-flow model does not carry (it answers `.system`). What the theorems use of this backend —
the gates before the walk, and that anchors-only suppresses every `User` answer — does not depend on
that. The backend is not compiled into the harness build, so nothing ties this function to the code. -/
def rustNativeCheck (p : Policy) (q : Query) : Except TrustErr Anchor :=
  if p.nSys == 0 && p.nUser == 0 then .error .certificateNotTrusted
  else
    match ekuGate p q with
    | some e => .error e
    | none =>
    if q.sysValid then .ok .system
    else if !p.anchorsOnly && q.userValid then .ok .user
    else .error .certificateNotTrusted

inductive Backend | openssl | rustNative
  deriving DecidableEq, Repr

/-- `CertificateTrustPolicy::check_certificate_trust` -/
def checkTrust (b : Backend) (p : Policy) (q : Query) : Except TrustErr Anchor :=
  if p.passthrough then .ok .noCheck
  else if p.allowSet.contains q.certHash then .ok .endEntity
  else match b with
    | .openssl => opensslCheck p q
    | .rustNative => rustNativeCheck p q

/-- What `Verifier::verify_trust` logs. -/
inductive Verdict | none | trusted | untrusted
  deriving DecidableEq, Repr

/-- `Verifier::verify_trust`: only `VerifyTrustPolicy` consults the policy; `Ok(_)` is logged as
`signingCredential.trusted`, `Err(_)` as `signingCredential.untrusted`. -/
def verifyTrust (mode : Mode) (b : Backend) (p : Policy) (q : Query) : Verdict :=
  match mode with
  | .trustPolicy =>
    match checkTrust b p q with
    | .ok _ => .trusted
    | .error _ => .untrusted
  | _ => .none

/-- The verdict as the `Trust` input of C06's code assembly (`none` never reaches it: the mode
already suppresses the trust codes there). -/
def Verdict.toTrust : Verdict → Trust
  | .trusted => .trusted
  | _ => .untrusted

/-- The EKU extension as the trust backends read it: `extended_key_usage()` must be
`Ok(Some(_))`. -/
def ekuOfFacts : C06.EkuExt → Option Eku
  | .some e => some e
  | _ => none

/-- The profile check and the trust check look at the *same* certificate bytes: what the trust
backends decode (`from_der`, `extended_key_usage`) is what the profile check decoded. -/
def queryOf (f : C06.CertFacts) (q : Query) : Query :=
  { q with eeParses := f.parses, eku := ekuOfFacts f.eku }

/-- …and both read the accepted EKUs from the one `CertificateTrustPolicy` handed to the
`Verifier`. -/
def envOf (p : Policy) (tst : Option Int) (now : Int) : C06.Env :=
  { tst := tst, now := now, allowedEkus := p.allowedEkus }

/-- The active-manifest signature codes and the state for a credential: C06's profile decision,
this file's trust decision (same policy, same certificate), C04's state. -/
def credentialCodes (mode : Mode) (b : Backend) (tst : Option Int) (now : Int) (f : C06.CertFacts)
    (p : Policy) (q : Query) (sigOk : Bool) : C04.Codes :=
  C06.signatureCodes mode (C06.checkEndEntity (envOf p tst now) f)
    (verifyTrust mode b p (queryOf f q)).toTrust sigOk

def credentialState (mode : Mode) (b : Backend) (tst : Option Int) (now : Int) (f : C06.CertFacts)
    (p : Policy) (q : Query) (sigOk : Bool) : C04.State :=
  C04.state (C06.resultsOf (credentialCodes mode b tst now f p q sigOk))

/-! ### `cert_chain_from_sign1` and `Verifier::verify_signature` -/

/-- What one COSE header holds under the `x5chain` label the code looks for there (protected:
text `"x5chain"` or integer 33; unprotected: text `"x5chain"` only): no such entry; an entry
`cert_chain_from_cbor_value` rejects (an array without any byte string, or a value that is neither
array nor byte string); an entry yielding at least one DER blob. -/
inductive HeaderChain | absent | bad | chain
  deriving DecidableEq, Repr

inductive ChainErr | missing | multiple
  deriving DecidableEq, Repr

/-- `cert_chain_from_sign1`: `Ok` always carries a non-empty vector (so `certs[0]` is defined). -/
def certChainFromSign1 (prot unprot : HeaderChain) : Except ChainErr Unit :=
  match prot with
  | .absent =>
    match unprot with
    | .chain => .ok ()
    | _ => .error .missing
  | _ =>
    if unprot = .chain then .error .multiple
    else match prot with
      | .chain => .ok ()
      | _ => .error .missing

/-- `CoseError` kinds `verify_signature` returns after the algorithm checks. -/
inductive VErr | missingChain | multipleChains | cborParsing | signature
  deriving DecidableEq, Repr

structure VerifyOut where
  result : Except VErr Unit
  success : List C04.Code
  failure : List C04.Code
  deriving Repr

/-- `Verifier::verify_signature` after the COSE structure and algorithm were accepted:
`verify_profile(..).ok()`, `verify_trust(..).ok()` (both return early, *without logging*, when
the chain cannot be extracted), then the chain again with `?`, the end-entity certificate's
`from_der`, the raw signature, the subject organisation. -/
def verifySignature (mode : Mode) (b : Backend) (tst : Option Int) (now : Int) (f : C06.CertFacts)
    (p : Policy) (q : Query) (prot unprot : HeaderChain) (sigOk hasOrg : Bool) : VerifyOut :=
  match certChainFromSign1 prot unprot with
  | .error .missing => { result := .error .missingChain, success := [], failure := [] }
  | .error .multiple => { result := .error .multipleChains, success := [], failure := [] }
  | .ok _ =>
    let prof := C06.checkEndEntity (envOf p tst now) f
    let t := C06.trustCodes mode (verifyTrust mode b p (queryOf f q)).toTrust
    { success := t.1
      failure := C06.profileFailure mode prof ++ t.2
      result :=
        if !f.parses then .error .cborParsing
        else if !sigOk then .error .signature
        else if !hasOrg then .error .missingChain
        else .ok () }

/-! ### line protocol -/

def Anchor.str : Anchor → String
  | .system => "System" | .user => "User" | .endEntity => "EndEntity" | .noCheck => "NoCheck"

def TrustErr.str : TrustErr → String
  | .certificateNotTrusted => "CertificateNotTrusted" | .invalidEku => "InvalidEku"
  | .cryptoLibraryError => "CryptoLibraryError" | .invalidCertificate => "InvalidCertificate"

def Verdict.str : Verdict → String
  | .none => "none" | .trusted => "trusted" | .untrusted => "untrusted"

def bit (toks : List String) (k : String) : Bool := field toks k == "1"

/-- `lines=-` or `|`-separated entries `<flags>~<text>`, flags ⊆ `b` (contains -----BEGIN),
`e` (contains -----END), `k` (decodes as base64), `-` for none; the text never contains `|`, `~`
or a space (the harness writes `_` for a space). -/
def parseLines (s : String) : List Line :=
  if s == "-" then []
  else (s.splitOn "|").map fun e =>
    match e.splitOn "~" with
    | [fl, t] =>
      let has (c : Char) := fl.toList.contains c
      { text := t, isBegin := has 'b', isEnd := has 'e', b64ok := has 'k' }
    | _ => { text := e }

def parseList (s : String) : List String := if s == "-" then [] else s.splitOn ","

/-- `pems=-` or comma list of block hashes, `!` for a block the PEM reader rejects. -/
def parsePems (s : String) : List (Option String) :=
  (parseList s).map fun h => if h == "!" then none else some h

/-- `-` (setting absent), `e` (present, no PEM block) or one character per PEM block: `1` = the
PEM reader yields `Ok`, `0` = `Err`. -/
def parseBlocks (s : String) : Option (List Bool) :=
  if s == "-" then none
  else if s == "e" then some []
  else some (s.toList.map (· == '1'))

def blocksOr (s : String) : List Bool := (parseBlocks s).getD []

def parseEkuOpt (s : String) : Option Eku :=
  match C06.parseEku s with
  | .some e => some e
  | _ => none

/-- The policy the function-level driver builds through the public API: `default()` or
`passthrough()`, then `add_trust_anchors` / `add_user_trust_anchors` / `add_end_entity_credentials`
/ `add_valid_ekus` (errors ignored, as `Store::from_context` does), `set_trust_anchors_only`.
`cfg` = the built-in EKU list of the starting policy, `tc` = the lines given to `add_valid_ekus`. -/
def parsePolicy (toks : List String) : Policy :=
  { passthrough := bit toks "pass"
    allowSet := (loadAllowListR (parseLines (field toks "lines")) (parsePems (field toks "pems"))).2
    nSys := (loadAnchors (blocksOr (field toks "sblk"))).2
    nUser := (loadAnchors (blocksOr (field toks "ublk"))).2
    anchorsOnly := bit toks "only"
    allowedEkus := parseList (field toks "cfg") ++ loadEkus (parseLines (field toks "tc")) }

/-- The `trust` settings of an end-to-end request: `sblk`/`ublk`/`tc`/`al` are `-` when the setting
is absent. -/
def parseSettings (toks : List String) : TrustSettings :=
  { trustAnchors := parseBlocks (field toks "sblk")
    userAnchors := parseBlocks (field toks "ublk")
    trustConfig := if field toks "tc" == "-" then none else some (parseLines (field toks "tc"))
    allowedList := if field toks "al" == "0" then none
      else some (parseLines (field toks "lines"), parsePems (field toks "pems")) }

def parseHeaderChain : String → HeaderChain
  | "chain" => .chain | "bad" => .bad | _ => .absent

def VErr.str : VErr → String
  | .missingChain => "MissingSigningCertificateChain"
  | .multipleChains => "MultipleSigningCertificateChains"
  | .cborParsing => "CborParsingError"
  | .signature => "Signature"

def listStr (l : List C04.Code) : String :=
  if l.isEmpty then "-" else ",".intercalate (l.map String.ofList)

def parseQuery (toks : List String) : Query :=
  { certHash := field toks "hash"
    eeParses := bit toks "eparse"
    chainParses := bit toks "cparse"
    sysAnchorsParse := bit toks "sparse"
    userAnchorsParse := bit toks "uparse"
    eku := parseEkuOpt (field toks "eku")
    sysValid := bit toks "sysv"
    userValid := bit toks "userv" }

def parseBackend (s : String) : Backend := if s == "native" then .rustNative else .openssl

def handle (toks : List String) : String :=
  match toks with
  | "trust" :: rest =>
    match checkTrust (parseBackend (field rest "backend")) (parsePolicy rest) (parseQuery rest) with
    | .ok a => "ok:" ++ a.str
    | .error e => "err:" ++ e.str
  | "load" :: rest =>
    -- one `add_end_entity_credentials` call on an empty policy: `is_ok()` and the resulting set
    let a := loadAllowListR (parseLines (field rest "lines")) (parsePems (field rest "pems"))
    let set := (a.2.mergeSort (fun x y => !(decide (y < x)))).eraseDups
    (if a.1 then "ok" else "err") ++ ":" ++ (if set.isEmpty then "-" else ",".intercalate set)
  | "e2e" :: rest =>
    let mode := C06.parseMode (field rest "mode")
    let b := parseBackend (field rest "backend")
    let env := C06.parseEnv rest
    let p := fromContext (parseList (field rest "cfg")) (parseSettings rest)
    let c := credentialCodes mode b env.tst env.now (C06.parseFacts rest) p (parseQuery rest) (bit rest "sigok")
    (C04.state (C06.resultsOf c)).str ++ " " ++ C06.codesStr c
  | "verify" :: rest =>
    let mode := C06.parseMode (field rest "mode")
    let env := C06.parseEnv rest
    let o := verifySignature mode (parseBackend (field rest "backend")) env.tst env.now (C06.parseFacts rest)
      (parsePolicy rest) (parseQuery rest) (parseHeaderChain (field rest "prot"))
      (parseHeaderChain (field rest "unprot")) (bit rest "sigok") (bit rest "org")
    (match o.result with
      | .ok _ => "ok"
      | .error e => "err:" ++ e.str) ++ " S=" ++ listStr o.success ++ " F=" ++ listStr o.failure
  | _ => "bad-op"

end C2pa.C05
