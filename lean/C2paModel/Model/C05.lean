import C2paModel.Base
import C2paModel.Model.C06
/-
C05 — model of `CertificateTrustPolicy::check_certificate_trust`
(sdk/src/crypto/cose/certificate_trust_policy.rs), of the control flow of both backends
(`certificate_trust/openssl.rs`, `certificate_trust/rust_native.rs`), of the allow-list loader
`add_end_entity_credentials`, and of `Verifier::verify_trust` (sdk/src/crypto/cose/verifier.rs).

Oracles (not modelled): whether a certificate chains to a set of anchors at a given time —
OpenSSL's `X509_verify_cert` with X509_STRICT | PARTIAL_CHAIN, resp. the hand-written chain walk
of the rust_native backend — is the input `sysValid` / `userValid`; SHA-256 / base64 / PEM decoding
give the `certHash`, the `b64ok` flag of a line and the list of PEM block hashes.
-/
namespace C2pa.C05

open C2pa.C06 (Eku hasAllowedEku Mode Trust)

/-- `TrustAnchorType` -/
inductive Anchor | system | user | endEntity | noCheck
  deriving DecidableEq, Repr

/-- `CertificateTrustError` -/
inductive TrustErr | certificateNotTrusted | invalidEku | cryptoLibraryError | invalidCertificate
  deriving DecidableEq, Repr

/-- One line of the text handed to `add_end_entity_credentials`: its text, whether it contains
`-----BEGIN` / `-----END`, and `b64ok` = `base64::decode(&line).is_ok()`. -/
structure Line where
  text : String
  isBegin : Bool := false
  isEnd : Bool := false
  b64ok : Bool := false
  deriving DecidableEq, Repr

/-- `inside_pem_block` after looking at a line: BEGIN sets it, END (tested second) clears it. -/
def nextInside (l : Line) (inside : Bool) : Bool :=
  if l.isEnd then false else if l.isBegin then true else inside

/-- The first loop of `add_end_entity_credentials`: stand-alone 44-character base64 lines
outside PEM blocks are taken as certificate hashes. Returns the collected hashes. -/
def scanLines : List Line → Bool → List String
  | [], _ => []
  | l :: ls, inside =>
    if !(nextInside l inside) && l.text.length == 44 && l.b64ok then
      l.text :: scanLines ls (nextInside l inside)
    else scanLines ls (nextInside l inside)

/-- `add_end_entity_credentials`: hash lines, then the hash of every PEM block (`pemHashes` =
`base64(sha256(der))` of the blocks `Pem::iter_from_buffer` yields). -/
def loadAllowList (lines : List Line) (pemHashes : List String) : List String :=
  scanLines lines false ++ pemHashes

structure Policy where
  passthrough : Bool := false
  /-- `end_entity_cert_set` -/
  allowSet : List String := []
  /-- number of `trust_anchor_ders` / `user_trust_anchor_ders` -/
  nSys : Nat := 0
  nUser : Nat := 0
  anchorsOnly : Bool := false
  /-- `additional_ekus` -/
  allowedEkus : List String := []
  deriving DecidableEq, Repr

/-- What is known about the credential being judged. -/
structure Query where
  /-- `base64(sha256(end_entity_cert_der))` -/
  certHash : String := ""
  /-- x509-parser decodes the end-entity certificate -/
  eeParses : Bool := true
  /-- every DER of the chain and the certificate handed to OpenSSL's `X509::from_der` parses; a
  failure is `CryptoLibraryError` -/
  chainParses : Bool := true
  sysAnchorsParse : Bool := true
  userAnchorsParse : Bool := true
  /-- the end-entity certificate's EKU extension as x509-parser sees it (`none` = absent or
  undecodable) -/
  eku : Option Eku := none
  /-- oracle: the chain verifies against the system / user anchor store at the signing time -/
  sysValid : Bool := false
  userValid : Bool := false
  deriving DecidableEq, Repr

/-- The EKU gate both backends apply after the empty-anchor test. -/
def ekuGate (p : Policy) (q : Query) : Option TrustErr :=
  if !q.eeParses then some .invalidCertificate
  else
    match q.eku with
    | none => some .invalidEku
    | some e => if hasAllowedEku p.allowedEkus e then none else some .invalidEku

/-- `certificate_trust::openssl::check_certificate_trust` -/
def opensslCheck (p : Policy) (q : Query) : Except TrustErr Anchor :=
  if p.nSys == 0 && p.nUser == 0 then .error .certificateNotTrusted
  else
    match ekuGate p q with
    | some e => .error e
    | none =>
    if !q.chainParses then .error .cryptoLibraryError
    else if !q.sysAnchorsParse then .error .cryptoLibraryError
    else if q.sysValid then .ok .system
    else if !p.anchorsOnly then
      if !q.userAnchorsParse then .error .cryptoLibraryError
      else if q.userValid then .ok .user
      else .error .certificateNotTrusted
    else .error .certificateNotTrusted

/-- `certificate_trust::rust_native::check_certificate_trust` as far as its control flow goes:
`sysValid` / `userValid` stand for "some certificate of the (ordered, internally consistent) chain
is issued and correctly signed by a system / user anchor, and no certificate walked before it was
outside its validity window". The walk tries the system anchors first for each certificate. -/
def rustNativeCheck (p : Policy) (q : Query) : Except TrustErr Anchor :=
  if p.nSys == 0 && p.nUser == 0 then .error .certificateNotTrusted
  else
    match ekuGate p q with
    | some e => .error e
    | none =>
    if q.sysValid then .ok .system
    else if !p.anchorsOnly && q.userValid then .ok .user
    else .error .certificateNotTrusted

inductive Backend | openssl | rustNative
  deriving DecidableEq, Repr

/-- `CertificateTrustPolicy::check_certificate_trust` -/
def checkTrust (b : Backend) (p : Policy) (q : Query) : Except TrustErr Anchor :=
  if p.passthrough then .ok .noCheck
  else if p.allowSet.contains q.certHash then .ok .endEntity
  else match b with
    | .openssl => opensslCheck p q
    | .rustNative => rustNativeCheck p q

/-- What `Verifier::verify_trust` logs. -/
inductive Verdict | none | trusted | untrusted
  deriving DecidableEq, Repr

/-- `Verifier::verify_trust`: only `VerifyTrustPolicy` consults the policy; `Ok(_)` is logged as
`signingCredential.trusted`, `Err(_)` as `signingCredential.untrusted`. -/
def verifyTrust (mode : Mode) (b : Backend) (p : Policy) (q : Query) : Verdict :=
  match mode with
  | .trustPolicy =>
    match checkTrust b p q with
    | .ok _ => .trusted
    | .error _ => .untrusted
  | _ => .none

/-- The verdict as the `Trust` input of C06's code assembly (`none` never reaches it: the mode
already suppresses the trust codes there). -/
def Verdict.toTrust : Verdict → Trust
  | .trusted => .trusted
  | _ => .untrusted

/-- The active-manifest signature codes and the state for a credential: C06's profile decision,
this file's trust decision, C04's state. -/
def credentialCodes (mode : Mode) (b : Backend) (env : C06.Env) (f : C06.CertFacts) (p : Policy)
    (q : Query) (sigOk : Bool) : C04.Codes :=
  C06.signatureCodes mode (C06.checkEndEntity env f) (verifyTrust mode b p q).toTrust sigOk

def credentialState (mode : Mode) (b : Backend) (env : C06.Env) (f : C06.CertFacts) (p : Policy)
    (q : Query) (sigOk : Bool) : C04.State :=
  C04.state (C06.resultsOf (credentialCodes mode b env f p q sigOk))

/-! ### line protocol -/

def Anchor.str : Anchor → String
  | .system => "System" | .user => "User" | .endEntity => "EndEntity" | .noCheck => "NoCheck"

def TrustErr.str : TrustErr → String
  | .certificateNotTrusted => "CertificateNotTrusted" | .invalidEku => "InvalidEku"
  | .cryptoLibraryError => "CryptoLibraryError" | .invalidCertificate => "InvalidCertificate"

def Verdict.str : Verdict → String
  | .none => "none" | .trusted => "trusted" | .untrusted => "untrusted"

def bit (toks : List String) (k : String) : Bool := field toks k == "1"

/-- `lines=-` or `|`-separated entries `<flags>~<text>`, flags ⊆ `b` (contains -----BEGIN),
`e` (contains -----END), `k` (decodes as base64), `-` for none; the text never contains `|`, `~`
or a space (the harness writes `_` for a space). -/
def parseLines (s : String) : List Line :=
  if s == "-" then []
  else (s.splitOn "|").map fun e =>
    match e.splitOn "~" with
    | [fl, t] =>
      let has (c : Char) := fl.toList.contains c
      { text := t, isBegin := has 'b', isEnd := has 'e', b64ok := has 'k' }
    | _ => { text := e }

def parseList (s : String) : List String := if s == "-" then [] else s.splitOn ","

def parseEkuOpt (s : String) : Option Eku :=
  match C06.parseEku s with
  | .some e => some e
  | _ => none

def parsePolicy (toks : List String) : Policy :=
  { passthrough := bit toks "pass"
    allowSet := loadAllowList (parseLines (field toks "lines")) (parseList (field toks "pems"))
    nSys := (field toks "nsys").toNat?.getD 0
    nUser := (field toks "nuser").toNat?.getD 0
    anchorsOnly := bit toks "only"
    allowedEkus := parseList (field toks "cfg") }

def parseQuery (toks : List String) : Query :=
  { certHash := field toks "hash"
    eeParses := bit toks "eparse"
    chainParses := bit toks "cparse"
    sysAnchorsParse := bit toks "sparse"
    userAnchorsParse := bit toks "uparse"
    eku := parseEkuOpt (field toks "eku")
    sysValid := bit toks "sysv"
    userValid := bit toks "userv" }

def parseBackend (s : String) : Backend := if s == "native" then .rustNative else .openssl

def handle (toks : List String) : String :=
  match toks with
  | "trust" :: rest =>
    match checkTrust (parseBackend (field rest "backend")) (parsePolicy rest) (parseQuery rest) with
    | .ok a => "ok:" ++ a.str
    | .error e => "err:" ++ e.str
  | "allow" :: rest =>
    let l := loadAllowList (parseLines (field rest "lines")) (parseList (field rest "pems"))
    if l.isEmpty then "-" else ",".intercalate l
  | "e2e" :: rest =>
    let mode := C06.parseMode (field rest "mode")
    let b := parseBackend (field rest "backend")
    let c := credentialCodes mode b (C06.parseEnv rest) (C06.parseFacts rest) (parsePolicy rest)
      (parseQuery rest) (bit rest "sigok")
    (C04.state (C06.resultsOf c)).str ++ " " ++ C06.codesStr c
  | _ => "bad-op"

end C2pa.C05
