import C2paModel.Base
/-
C07 / C08 / C09 / C12 — embedding algebra, shared base.

Layer A (all formats): a container is a list of segments, each with a kind
(manifest | xmp | media | header), a tag (used only for box-map names) and its raw bytes;
the file is the concatenation of the raw bytes. The abstract operations are

  * `writeA`  – drop every manifest segment, insert one new manifest segment (the store
                wrapped by the format) at the format's insertion index,
  * `removeA` – drop every manifest segment,
  * `readA`   – the unique manifest segment unwrapped (none / many / bad otherwise),
  * `locA`    – the Cai range and the two `Other` ranges around it,
  * `boxesA`  – one (tag, start, len, isManifest) entry per segment,
  * `patchA`  – overwrite the Cai range with another wrapped store of the same length.

Layer B files (`C07Png`, `C07Riff`, …) give byte-exact models of the per-format handlers
and the lexers that map real bytes to segment lists.
-/
namespace C2pa.C07

abbrev Bytes := List UInt8

/-! ### byte helpers -/

def be32 (n : Nat) : Bytes :=
  [UInt8.ofNat (n / 16777216 % 256), UInt8.ofNat (n / 65536 % 256),
   UInt8.ofNat (n / 256 % 256), UInt8.ofNat (n % 256)]

def le32 (n : Nat) : Bytes :=
  [UInt8.ofNat (n % 256), UInt8.ofNat (n / 256 % 256),
   UInt8.ofNat (n / 65536 % 256), UInt8.ofNat (n / 16777216 % 256)]

def be16 (n : Nat) : Bytes := [UInt8.ofNat (n / 256 % 256), UInt8.ofNat (n % 256)]

def rdBe32 (b : Bytes) (o : Nat) : Nat :=
  (b.getD o 0).toNat * 16777216 + (b.getD (o + 1) 0).toNat * 65536
    + (b.getD (o + 2) 0).toNat * 256 + (b.getD (o + 3) 0).toNat

def rdLe32 (b : Bytes) (o : Nat) : Nat :=
  (b.getD o 0).toNat + (b.getD (o + 1) 0).toNat * 256
    + (b.getD (o + 2) 0).toNat * 65536 + (b.getD (o + 3) 0).toNat * 16777216

def rdBe16 (b : Bytes) (o : Nat) : Nat :=
  (b.getD o 0).toNat * 256 + (b.getD (o + 1) 0).toNat

def slice (b : Bytes) (o n : Nat) : Bytes := (b.drop o).take n

def asc (s : String) : Bytes := s.toList.map (fun c => UInt8.ofNat c.toNat)

/-- FNV-1a, 64 bit: the digest used to compare large outputs. -/
def fnv (b : Bytes) : UInt64 :=
  b.foldl (fun h x => (h ^^^ x.toUInt64) * 0x100000001b3) 0xcbf29ce484222325

def hex64 (h : UInt64) : String :=
  let n := h.toNat
  String.ofList ((List.range 16).map fun i => hexDigit (n / 16 ^ (15 - i) % 16))

def digest (b : Bytes) : String := toString b.length ++ ":" ++ hex64 (fnv b)

/-- CRC-32 (IEEE, reflected, as used by PNG). -/
def crcStep (c : UInt32) (x : UInt8) : UInt32 :=
  let c0 := c ^^^ x.toUInt32
  (List.range 8).foldl (fun c _ => if c &&& 1 == 1 then (c >>> 1) ^^^ 0xEDB88320 else c >>> 1) c0

def crc32 (b : Bytes) : Nat :=
  ((b.foldl crcStep 0xFFFFFFFF) ^^^ 0xFFFFFFFF).toNat

/-- The fixed 32-byte C2PA JUMBF prefix of a generated store of total length `n`
(LBox, "jumb", description box header, the C2PA manifest-store UUID). -/
def storeHeader (n : Nat) : Bytes :=
  be32 n ++ asc "jumb" ++ [0, 0, 0, 0x1e] ++ asc "jumd"
    ++ [0x63, 0x32, 0x70, 0x61, 0x00, 0x11, 0x00, 0x10, 0x80, 0x00, 0x00, 0xaa, 0x00, 0x38, 0x9b, 0x71]
    ++ [0x03] ++ asc "c2pa" ++ [0]

def lcgBytes : Nat → UInt64 → Bytes
  | 0, _ => []
  | n + 1, s =>
    let s' := s * 6364136223846793005 + 1442695040888963407
    (s' >>> 33).toUInt8 :: lcgBytes n s'

/-- Generated store `g<len>.<seed>`: header prefix (truncated when `len < 32`) + LCG bytes. -/
def genStore (len seed : Nat) : Bytes :=
  let h := (storeHeader len).take len
  h ++ lcgBytes (len - h.length) (UInt64.ofNat seed)

/-- Store spec: `x<hex>` literal, `g<len>.<seed>` generated, `-` empty. -/
def parseStore (s : String) : Option Bytes :=
  if s == "-" then some []
  else match s.toList with
    | 'x' :: rest => fromHexChars rest
    | 'g' :: rest =>
      match (String.ofList rest).splitOn "." with
      | [a, b] => match a.toNat?, b.toNat? with
        | some n, some sd => some (genStore n sd)
        | _, _ => none
      | _ => none
    | _ => none

/-! ### layer A -/

inductive Kind | manifest | xmp | media | header
  deriving DecidableEq, Repr

structure Seg where
  kind : Kind
  tag : String
  raw : Bytes
  deriving DecidableEq, Repr

def isM (s : Seg) : Bool := s.kind == .manifest

def ser (c : List Seg) : Bytes := c.flatMap (·.raw)

def strip (c : List Seg) : List Seg := c.filter (fun s => !isM s)

def manifests (c : List Seg) : List Seg := c.filter isM

/-- What a format contributes to layer A. -/
structure Fmt where
  /-- bytes of the manifest segment holding a store -/
  wrap : Bytes → Bytes
  /-- inverse of `wrap` on manifest segments -/
  unwrap : Bytes → Option Bytes
  /-- insertion index into the stripped segment list, decided from the input container -/
  pos : List Seg → Nat

def mseg (F : Fmt) (s : Bytes) : Seg := ⟨.manifest, "C2PA", F.wrap s⟩

def insIdx (F : Fmt) (c : List Seg) : Nat := min (F.pos c) (strip c).length

def writeA (F : Fmt) (c : List Seg) (s : Bytes) : List Seg :=
  (strip c).take (insIdx F c) ++ mseg F s :: (strip c).drop (insIdx F c)

def removeA (c : List Seg) : List Seg := strip c

inductive ReadR | none | many | bad | ok (s : Bytes)
  deriving DecidableEq, Repr

def readA (F : Fmt) (c : List Seg) : ReadR :=
  match manifests c with
  | [] => .none
  | [m] => match F.unwrap m.raw with
    | some s => .ok s
    | none => .bad
  | _ => .many

/-- Byte offset of segment index `i`. -/
def offAt (c : List Seg) (i : Nat) : Nat := (ser (c.take i)).length

/-- Offset of the Cai region of `writeA F c s`. -/
def caiOff (F : Fmt) (c : List Seg) : Nat := offAt (strip c) (insIdx F c)

structure Loc where
  off : Nat
  len : Nat
  cai : Bool
  deriving DecidableEq, Repr

/-- Object locations of a container with its manifest at `[off, off+len)` in a file of
`total` bytes: the Cai range and the two surrounding `Other` ranges. -/
def locA (off len total : Nat) : List Loc :=
  [⟨off, len, true⟩, ⟨0, off, false⟩, ⟨off + len, total - (off + len), false⟩]

structure Box where
  tag : String
  start : Nat
  len : Nat
  cai : Bool
  excl : Bool := false
  deriving DecidableEq, Repr

/-- One box per segment, offsets accumulated from `base`. -/
def boxesFrom : Nat → List Seg → List Box
  | _, [] => []
  | base, s :: rest => ⟨s.tag, base, s.raw.length, isM s, false⟩ :: boxesFrom (base + s.raw.length) rest

def boxesA (c : List Seg) : List Box := boxesFrom 0 c

/-- Same-size patch: overwrite `[off, off+|w|)` of the file with `w`. -/
def patchA (file : Bytes) (off : Nat) (w : Bytes) : Bytes :=
  file.take off ++ w ++ file.drop (off + w.length)

/-- The offset fix-up that is correct for replacing `old` by `new` at offset `off`
(absolute offsets into the input file): data before the replaced region stays, data after
it moves by the size difference. -/
def adjOff (off oldLen newLen o : Nat) : Nat :=
  if o < off + oldLen then o else o - oldLen + newLen

/-! ### reply formatting -/

def locStr (l : List Loc) : String :=
  if l.isEmpty then "-" else
  "/".intercalate (l.map fun x => toString x.off ++ "+" ++ toString x.len ++ (if x.cai then "c" else "o"))

def boxStr (l : List Box) : String :=
  if l.isEmpty then "-" else
  "/".intercalate (l.map fun x => x.tag ++ "@" ++ toString x.start ++ "+" ++ toString x.len ++ (if x.excl then "x" else ""))

end C2pa.C07
