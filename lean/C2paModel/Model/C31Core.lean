import C2paModel.Base
/-
C31 — core of the model of the C FFI handle layer (c2pa_c_ffi).

* `Reg` + `track/validate/untrack/free` mirror `PointerRegistry` (cimpl/utils.rs): a
  `HashMap<usize,(TypeId, CleanupFn)>`.  The cleanup closure of an entry is represented by
  the allocation id it would `Box::from_raw`.  `free r a t` is `PointerRegistry::free` for
  `t = .none` (the universal `cimpl_free`) and `PointerRegistry::free_typed` otherwise (the
  type-specific release functions, `cimpl_free!(p, T)`).
* `FnRow` is one exported function as the translator (translators/c31_ffi_guards.py) sees
  it: parameters with their declared kind and the ordered list of *uses* of each parameter
  (guard macros of cimpl/macros.rs, `is_null` early returns, raw uses).
* `step` interprets a row against a world: the guard macros run in source order with the
  semantics of cimpl/macros.rs; the first failing guard returns the error value after
  `set_last`; effects of earlier `untrack_or_return!` (ownership taken, value dropped at
  scope exit) persist; the SDK operation behind the guards is an oracle (`inner`);
  results are boxed/tracked at the address the (adversarial) allocator answers.
* Undefined behaviour is not given a semantics: a use of a pointer that is not what the
  code assumes sets `Outcome.ub` and leaves the world untouched.

Addresses are `Nat`, `0` is NULL.  Caller memory (C strings, out parameters, byte buffers)
is either NULL or valid: the harness never passes dangling caller memory, and the
property statement is about handles.
-/
namespace C2pa.C31

/-- `TypeId`s that occur in the registry (plus `none` = "not a handle type"). -/
inductive Ty
  | none | settings | contextBuilder | context | reader | builder | signer | stream | resolver
  | cstring | bytes
  deriving DecidableEq, Repr, Inhabited

structure Entry where
  ty : Ty
  alloc : Nat
  deriving DecidableEq, Repr

/-- `PointerRegistry.tracked` as an association list with at most one entry per key. -/
abbrev Reg := List (Nat × Entry)

def Reg.get : Reg → Nat → Option Entry
  | [], _ => none
  | (k, e) :: rest, a => if k = a then some e else Reg.get rest a

def Reg.remove (r : Reg) (a : Nat) : Reg := r.filter (fun x => x.1 != a)

/-- `HashMap::insert`: replaces an existing entry. -/
def Reg.insert (r : Reg) (a : Nat) (e : Entry) : Reg := (a, e) :: r.remove a

inductive RegErr | null | untracked | wrongType
  deriving DecidableEq, Repr

/-- `PointerRegistry::track`: `if ptr != 0 { tracked.insert(ptr, …) }` -/
def track (r : Reg) (a : Nat) (e : Entry) : Reg := if a = 0 then r else r.insert a e

/-- `PointerRegistry::validate` -/
def validate (r : Reg) (a : Nat) (t : Ty) : Except RegErr Entry :=
  if a = 0 then .error .null
  else match r.get a with
    | some e => if e.ty = t then .ok e else .error .wrongType
    | none => .error .untracked

/-- `PointerRegistry::untrack`: remove without running the cleanup; the caller
(`untrack_or_return!`) then does `*Box::from_raw(ptr)`. -/
def untrack (r : Reg) (a : Nat) (t : Ty) : Except RegErr (Reg × Entry) :=
  if a = 0 then .error .null
  else match r.get a with
    | some e => if e.ty = t then .ok (r.remove a, e) else .error .wrongType
    | none => .error .untracked

/-- `PointerRegistry::free` (`t = .none`: the universal `cimpl_free`, no type check) and
`PointerRegistry::free_typed` (`t ≠ .none`: `cimpl_free_typed::<T>` behind the type-specific
release functions): NULL is fine, otherwise remove and run the cleanup; the typed variant
first compares the tracked type and leaves a pointer tracked with another type alone. -/
def free (r : Reg) (a : Nat) (t : Ty) : Except RegErr (Reg × Option Entry) :=
  if a = 0 then .ok (r, none)
  else match r.get a with
    | some e => if t = .none ∨ e.ty = t then .ok (r.remove a, some e) else .error .wrongType
    | none => .error .untracked

/-! ### the FfiGuards table -/

inductive PKind
  | handle | cstr | anyptr | bytes | opaque | out | strarray | ownedArray | array | structref
  | callback | scalar
  deriving DecidableEq, Repr

inductive Use
  | validate | validateNonnull | untrack | free | nullck | nullretOk | nullretSilent | nullbranch | ifnonnull
  | cstr | cstropt | bytes | cstrarr | opaque | scalar
  | raw | rawwrite | rawNonnull | writeNonnull | fieldread
  deriving DecidableEq, Repr

inductive RKind
  | unit | handle | cstring | cstringOpt | bytes | strarray | int | int64 | bool
  deriving DecidableEq, Repr

structure Param where
  name : String
  kind : PKind
  ty : Ty
  /-- listed in translators/c31_exceptions.json (reviewed list of known-unguarded parameters) -/
  exc : Bool := false
  deriving Repr

structure Event where
  p : Nat
  use : Use
  ty : Ty
  deriving Repr

structure FnRow where
  name : String
  cfgGated : Bool
  params : List Param
  events : List Event
  ret : RKind
  retTy : Ty
  /-- body is the release loop of `c2pa_free_string_array` (recognised by the translator) -/
  freesArray : Bool := false
  /-- `freesArray`: the type check of the element release (`c2pa_string_free`), `.none` = none -/
  elemTy : Ty := .none
  /-- a top-level `set_last()` statement: storing the caller's message is the success effect
  (`c2pa_error_set_last`) -/
  setsLast : Bool := false
  deriving Repr

/-! ### worlds, calls, outcomes -/

/-- An untracked string array handed out by `c2pa_*_supported_mime_types`. -/
structure ArrayEntry where
  addr : Nat
  alloc : Nat
  elems : List Nat
  deriving Repr

structure World where
  reg : Reg := []
  arrays : List ArrayEntry := []
  next : Nat := 0
  /-- every run of a cleanup closure / `Box::from_raw`: (allocation id, address), newest first -/
  cleanups : List (Nat × Nat) := []
  deriving Repr

structure Arg where
  a : Nat
  /-- byte buffers: the accompanying length argument is 0 -/
  len0 : Bool := false
  deriving Repr

inductive LastErr | none | null | untracked | wrongType | bufsize | other
  deriving DecidableEq, Repr

def RegErr.toLast : RegErr → LastErr
  | .null => .null | .untracked => .untracked | .wrongType => .wrongType

structure Call where
  row : FnRow
  args : List Arg
  /-- result of the SDK operation behind the guards (oracle) -/
  inner : Bool
  /-- the allocator's answers, in allocation order (`0`: the call produced NULL) -/
  allocs : List Nat

structure Outcome where
  /-- an error return was taken -/
  fail : Bool := false
  /-- error stored with `set_last` during the call -/
  err : LastErr := .none
  ub : Bool := false
  /-- the supplied allocator answers violate "never a live address" -/
  allocBad : Bool := false
  newH : List (Nat × Ty) := []
  /-- addresses whose cleanup ran during the call, in order -/
  freed : List Nat := []
  deriving Repr

def argOf (args : List Arg) (i : Nat) : Arg := args.getD i { a := 0 }

def paramOf (row : FnRow) (i : Nat) : Param := row.params.getD i { name := "", kind := .scalar, ty := .none }

def World.arrayAt (w : World) (a : Nat) : Option ArrayEntry := w.arrays.find? (fun x => x.addr == a)

/-- Is `a` the address of a live allocation handed out by the library? -/
def World.live (w : World) (a : Nat) : Bool := (w.reg.get a).isSome || (w.arrayAt a).isSome

/-- What a raw (unchecked) use of parameter `k` with argument `a` needs in order to be defined. -/
def rawDefined (w : World) (k : Param) (a : Nat) : Bool :=
  match k.kind with
  | .handle => match w.reg.get a with
    | some e => decide (e.ty = k.ty)
    | none => false
  | .ownedArray => (w.arrayAt a).isSome
  | .anyptr => (w.reg.get a).isSome
  | _ => a != 0

inductive Stop
  | err (e : LastErr) | silent | okEarly | alt | ub
  deriving Repr

/-- One use of a parameter, in source order. `Except.error` = the function leaves the guard
sequence here. The second component is the list of addresses whose cleanup ran. -/
def evStep (row : FnRow) (args : List Arg) (w : World) (e : Event) : Except Stop (World × List Nat) :=
  let a := argOf args e.p
  let k := paramOf row e.p
  match e.use with
  | .validate =>
    match validate w.reg a.a e.ty with
    | .ok _ => .ok (w, [])
    | .error x => .error (.err x.toLast)
  | .validateNonnull =>
    -- `if !p.is_null() { deref_mut_or_return!(p, T) … }`
    if a.a = 0 then .ok (w, [])
    else match validate w.reg a.a e.ty with
      | .ok _ => .ok (w, [])
      | .error x => .error (.err x.toLast)
  | .untrack =>
    match untrack w.reg a.a e.ty with
    | .ok (r, ent) => .ok ({ w with reg := r, cleanups := (ent.alloc, a.a) :: w.cleanups }, [a.a])
    | .error x => .error (.err x.toLast)
  | .free =>
    match free w.reg a.a e.ty with
    | .ok (r, some ent) => .ok ({ w with reg := r, cleanups := (ent.alloc, a.a) :: w.cleanups }, [a.a])
    | .ok (_, none) => .ok (w, [])
    | .error x => .error (.err x.toLast)
  | .nullck => if a.a = 0 then .error (.err .null) else .ok (w, [])
  | .nullretOk => if a.a = 0 then .error .okEarly else .ok (w, [])
  | .nullretSilent => if a.a = 0 then .error .silent else .ok (w, [])
  | .nullbranch => if a.a = 0 then .error .alt else .ok (w, [])
  | .cstr => if a.a = 0 then .error (.err .null) else .ok (w, [])
  | .bytes =>
    if a.a = 0 then .error (.err .null)
    else if a.len0 then .error (.err .bufsize) else .ok (w, [])
  | .ifnonnull | .cstropt | .cstrarr | .opaque | .scalar => .ok (w, [])
  | .raw | .rawwrite | .fieldread =>
    if rawDefined w k a.a then .ok (w, []) else .error .ub
  | .rawNonnull | .writeNonnull =>
    if a.a = 0 then .ok (w, [])
    else if rawDefined w k a.a then .ok (w, []) else .error .ub

def runEvents (row : FnRow) (args : List Arg) : World → List Nat → List Event → World × List Nat × Option Stop
  | w, fr, [] => (w, fr, none)
  | w, fr, e :: es =>
    match evStep row args w e with
    | .error s => (w, fr, some s)
    | .ok (w', f) => runEvents row args w' (fr ++ f) es

/-- `box_tracked!` / `to_c_string` / `to_c_bytes` at the address the allocator answered. -/
def allocTracked (w : World) (a : Nat) (t : Ty) : World × Bool :=
  if a = 0 then (w, true)
  else
    let bad := w.live a
    ({ w with reg := track w.reg a { ty := t, alloc := w.next }, next := w.next + 1 }, !bad)

def allocStrings : World → List Nat → World × Bool
  | w, [] => (w, true)
  | w, a :: as =>
    let (w1, ok1) := allocTracked w a .cstring
    let (w2, ok2) := allocStrings w1 as
    (w2, decide (a ≠ 0) && ok1 && ok2)

/-- `c2pa_string_free(elem)` for every element (type check `t` of that function): the result
is ignored; an element that is not tracked (or tracked with another type) stores its error,
the last one stays (third component, `.none` = every element was released). -/
def freeElems (t : Ty) : World → List Nat → World × List Nat × LastErr
  | w, [] => (w, [], .none)
  | w, a :: as =>
    match free w.reg a t with
    | .ok (r, some ent) =>
      let (w2, fr, e2) := freeElems t { w with reg := r, cleanups := (ent.alloc, a) :: w.cleanups } as
      (w2, a :: fr, e2)
    | .ok (_, none) => freeElems t w as
    | .error x =>
      let (w2, fr, e2) := freeElems t w as
      (w2, fr, if e2 = .none then x.toLast else e2)

/-- Does a successful call hand manifest bytes out through an out parameter? -/
def FnRow.outBytes (row : FnRow) : Option Nat :=
  if row.ret = .int64 then
    (row.events.find? (fun e => e.use == .writeNonnull)).map (·.p)
  else none

/-- Success path after all guards: release loop of `c2pa_free_string_array`, or results
boxed and tracked. -/
def finish (w : World) (c : Call) (fr : List Nat) : World × Outcome :=
  if c.row.freesArray then
    match w.arrayAt (argOf c.args 0).a with
    | none => (w, { freed := fr })
    | some ar =>
      let (w1, fr1, le) := freeElems c.row.elemTy w ar.elems
      ({ w1 with arrays := w1.arrays.filter (fun x => x.addr != ar.addr),
                 cleanups := (ar.alloc, ar.addr) :: w1.cleanups },
       { err := le, freed := fr ++ fr1 ++ [ar.addr] })
  else
  match c.row.ret with
  | .handle =>
    let a := c.allocs.getD 0 0
    let (w1, ok) := allocTracked w a c.row.retTy
    (w1, { allocBad := !(ok && a != 0), newH := [(a, c.row.retTy)], freed := fr })
  | .cstring | .cstringOpt =>
    let a := c.allocs.getD 0 0
    let (w1, ok) := allocTracked w a .cstring
    (w1, { allocBad := !ok, newH := if a = 0 then [] else [(a, .cstring)], freed := fr })
  | .bytes =>
    let a := c.allocs.getD 0 0
    let (w1, ok) := allocTracked w a .bytes
    (w1, { allocBad := !ok, newH := if a = 0 then [] else [(a, .bytes)], freed := fr })
  | .strarray =>
    match c.allocs.reverse with
    | [] => (w, { allocBad := true, freed := fr })
    | arr :: revElems =>
      let elems := revElems.reverse
      let (w1, ok) := allocStrings w elems
      let bad := arr == 0 || w1.live arr
      ({ w1 with arrays := { addr := arr, alloc := w1.next, elems := elems } :: w1.arrays, next := w1.next + 1 },
       { allocBad := !ok || bad, newH := elems.map (fun a => (a, Ty.cstring)), freed := fr })
  | .int64 =>
    match c.row.outBytes with
    | some p =>
      if (argOf c.args p).a = 0 then (w, { freed := fr })
      else
        let a := c.allocs.getD 0 0
        let (w1, ok) := allocTracked w a .bytes
        (w1, { allocBad := !ok, newH := if a = 0 then [] else [(a, .bytes)], freed := fr })
    | none => (w, { freed := fr })
  | .unit | .int | .bool => (w, { err := if c.row.setsLast then .other else .none, freed := fr })

/-- One exported call. -/
def step (w : World) (c : Call) : World × Outcome :=
  match runEvents c.row c.args w [] c.row.events with
  | (w1, fr, some (.err e)) => (w1, { fail := true, err := e, freed := fr })
  | (w1, fr, some .silent) => (w1, { fail := true, err := .none, freed := fr })
  | (w1, fr, some .okEarly) => (w1, { freed := fr })
  | (_, _, some .ub) => (w, { ub := true })
  | (w1, fr, some .alt) | (w1, fr, none) =>
    if c.inner then finish w1 c fr
    else (w1, { fail := true, err := .other, freed := fr })

def run : World → List Call → World × List Outcome
  | w, [] => (w, [])
  | w, c :: cs =>
    let (w1, o) := step w c
    let (w2, os) := run w1 cs
    (w2, o :: os)

/-! ### guardedness of table rows (decidable, evaluated on the regenerated table) -/

def Use.stopsOnNull : Use → Bool
  | .nullck | .nullretOk | .nullretSilent | .nullbranch | .cstr | .bytes => true
  | _ => false

def Use.isRaw : Use → Bool
  | .raw | .rawwrite | .fieldread => true
  | _ => false

def Use.isRawNonnull : Use → Bool
  | .rawNonnull | .writeNonnull => true
  | _ => false

def PKind.isLibraryOwned : PKind → Bool
  | .handle | .ownedArray | .anyptr => true
  | _ => false

/-- `safeFrom seen rest`: every raw use in `rest` is protected by what precedes it.
`seen` = parameters for which a stop-on-NULL guard has already passed. -/
def eventsSafe (row : FnRow) : List Nat → List Event → Bool
  | _, [] => true
  | seen, e :: es =>
    let k := (paramOf row e.p).kind
    let okHere :=
      if e.use.isRaw then !k.isLibraryOwned && seen.contains e.p
      else if e.use.isRawNonnull then !k.isLibraryOwned
      else true
    okHere && eventsSafe row (if e.use.stopsOnNull then e.p :: seen else seen) es

def rowGuarded (row : FnRow) : Bool := eventsSafe row [] row.events

/-- The first use of a handle parameter is a registry guard naming the declared type. -/
def handleParamChecked (row : FnRow) (i : Nat) : Bool :=
  let p := paramOf row i
  match (row.events.filter (fun e => e.p == i && e.use != .nullck && e.use != .ifnonnull)).head? with
  | some e =>
    match e.use with
    | .validate | .validateNonnull | .untrack => decide (e.ty = p.ty)
    | .free => true
    | _ => false
  | none => false

/-- Caller memory: a raw use only after a guard that leaves on NULL (`g` = such a guard
has been passed). -/
def callerMemSafe : Bool → List Event → Bool
  | _, [] => true
  | g, e :: es => (if e.use.isRaw then g else true) && callerMemSafe (g || e.use.stopsOnNull) es

/-- Per parameter: what `all_handle_params_guarded` demands. -/
def paramGuarded (row : FnRow) (i : Nat) : Bool :=
  let p := paramOf row i
  let uses := row.events.filter (fun e => e.p == i)
  match p.kind with
  | .handle | .anyptr | .ownedArray =>
    handleParamChecked row i && uses.all (fun e => !e.use.isRaw && !e.use.isRawNonnull)
  | .callback | .scalar => true
  | _ => callerMemSafe false uses

def FnRow.silentFree (row : FnRow) : Bool := row.events.all (fun e => e.use != .nullretSilent)

def Use.isRegistryGuard : Use → Bool
  | .validate | .untrack => true
  | _ => false

def Use.leavesWithoutError : Use → Bool
  | .nullretOk | .nullretSilent | .nullbranch => true
  | _ => false

/-- No registry guard comes after a use that can leave the guard sequence without an error
(`seen` = such a use has been met). -/
def noBypass : Bool → List Event → Bool
  | _, [] => true
  | seen, e :: es =>
    (if e.use.isRegistryGuard then !seen else true) && noBypass (seen || e.use.leavesWithoutError) es

/-! ### line protocol pieces shared with Model/C31.lean -/

def Ty.str : Ty → String
  | .none => "none" | .settings => "settings" | .contextBuilder => "contextBuilder"
  | .context => "context" | .reader => "reader" | .builder => "builder" | .signer => "signer"
  | .stream => "stream" | .resolver => "resolver" | .cstring => "cstring" | .bytes => "bytes"

def LastErr.str : LastErr → String
  | .none => "none" | .null => "null" | .untracked => "untracked" | .wrongType => "wrongtype"
  | .bufsize => "bufsize" | .other => "other"

end C2pa.C31
