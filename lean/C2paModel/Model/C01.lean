import C2paModel.Base
import C2paModel.Model.C13
/-
C01 — model of the hard-binding verification:

* `DataHash::verify_stream_hash_with_progress` (sdk/src/assertions/data_hash.rs) on top of the
  C13 model of `hash_stream_by_alg_with_progress` (imported, not re-modelled),
* the update-manifest exclusion re-basing and the verdict/code mapping of
  `Claim::verify_hash_binding` (sdk/src/claim.rs),
* `BoxHash::verify_stream_hash_with_progress` (sdk/src/assertions/box_hash.rs, **after**
  fixes/C01-boxhash-cover-all.patch) over an abstract handler box map,
* BMFF file-level hashing (`BmffHash::verify_stream_hash_with_progress`, non-Merkle part) at the
  level "exclusion list resolved by `bmff_to_jumbf_exclusions` (ranges + offset markers) is an
  input": it is C13 exclusion hashing with markers followed by the comparison.

Idealisation **H-free** (DESIGN §3): a digest is represented by its preimage — the byte string
that was absorbed when the assertion was signed (`pre`). `vec_compare(hash, computed)` becomes
equality of absorbed strings. The harness turns this around for the real code: it stores
`sha(pre)` in the assertion and checks `sha(pre)` against the signed digest for real assets.
-/
namespace C2pa.C01
open C2pa.C13

/-- canonical result classes of the three `verify_*` functions -/
inductive VErr
  | remote          -- `BadParam("asset hash is remote")`
  | noAlg           -- `HashMismatch("no alg specified" / "No algorithm specified")`
  | noBoxes         -- `HashMismatch("No box hash found")`
  | noSource        -- `HashMismatch("No data boxes found")`
  | unknownBox      -- `HashMismatch(ASSERTION_BOXHASH_UNKNOWN_BOX)`
  | malformedC2pa   -- `HashMismatch("Malformed C2PA box hash")`
  | mismatch        -- `HashMismatch("Hashes do not match")`
  | unconsumed      -- `HashMismatch(..)`: source boxes / asset bytes not covered (fix F5)
  | handler         -- `get_box_map` / exclusion resolver failed
  | hash (e : C13.Err)   -- error of the range hasher, propagated with `?`
  | panic
  deriving DecidableEq, Repr

inductive VRes | ok | err (e : VErr)
  deriving DecidableEq, Repr

/-! ### DataHash -/

/-- the fields of `DataHash` that verification reads; `pre` is the idealised `hash` -/
structure DataHash where
  remote : Bool
  alg : Option String
  excl : Option (List HashRange)
  pre : List UInt8
  deriving Repr

/-- `hash_stream_by_alg_with_progress(..)?` then `vec_compare` -/
def compareHash (pre : List UInt8) (o : Outcome) : VRes :=
  match o with
  | .ok abs _ => if abs = pre then .ok else .err .mismatch
  | .err e _ => .err (.hash e)
  | .panic _ => .err .panic

/-- `DataHash::verify_stream_hash_with_progress(reader, alg, progress)`; `buf` is the chunk size
of the hasher (irrelevant: C13 `chunk_independent`) -/
def verifyData (dh : DataHash) (claimAlg : Option String) (data : List UInt8) (buf : Nat) : VRes :=
  if dh.remote then .err .remote
  else
    match (match dh.alg with | some a => some a | none => claimAlg) with
    | none => .err .noAlg
    | some alg => compareHash dh.pre (hashModel alg data dh.excl true buf none)

/-! ### update-manifest re-basing (`verify_hash_binding`, `svi.update_manifest_label` branch) -/

/-- `exclusions.iter().position(|r| r.start() == range.start())` -/
def findStart (s : Nat) : List HashRange → Option Nat
  | [] => none
  | r :: rs => if r.start = s then some 0 else (findStart s rs).map (· + 1)

/-- `exclusions[pos] = range.clone()` -/
def setAt (r : HashRange) : Nat → List HashRange → List HashRange
  | _, [] => []
  | 0, _ :: xs => r :: xs
  | n + 1, x :: xs => x :: setAt r n xs

/-- the fix-up loop; `none` = `u64` overflow of the unchecked `+` -/
def shiftAfter (startOffset adjust : Nat) : List HashRange → Option (List HashRange)
  | [] => some []
  | x :: xs =>
    match shiftAfter startOffset adjust xs with
    | none => none
    | some ys =>
      if x.start > startOffset then
        if x.start + adjust > u64Max then none else some ({ x with start := x.start + adjust } :: ys)
      else some (x :: ys)

/-- the whole branch on `dh.exclusions = Some(ex)`; `range` is `svi.manifest_store_range` -/
def rebase (ex : List HashRange) (range : Option HashRange) : Option (List HashRange) :=
  match range with
  | none => some ex
  | some rg =>
    match findStart rg.start ex with
    | none => some ex
    | some pos =>
      let old := (ex[pos]?).map (·.length) |>.getD 0
      let adjust := rg.length - old          -- saturating_sub
      let ex1 := setAt rg pos ex
      if rg.start > 0 then shiftAfter rg.start adjust ex1 else some ex1

/-- the data-hash arm of `verify_hash_binding`: re-base when an update manifest is active,
then verify. Reply: the status code logged (`match` / `mismatch`), `extra` = the informational
`additionalExclusionsPresent` code, or a panic. -/
inductive Verdict | matched (extra : Bool) | mismatched (extra : Bool) | malformed | fatal | panic
  deriving DecidableEq, Repr

def bindData (dh : DataHash) (claimAlg : Option String) (update : Bool) (range : Option HashRange)
    (data : List UInt8) (buf : Nat) : Verdict :=
  let ex' : Option (Option (List HashRange)) :=
    if update then
      match dh.excl with
      | some ex => (rebase ex range).map some
      | none => some none
    else some dh.excl
  match ex' with
  | none => .panic
  | some excl =>
    let dh' := { dh with excl := excl }
    if dh'.remote then .mismatched false
    else
      let extra := match excl with | some l => decide (l.length > 1) | none => false
      match verifyData dh' claimAlg data buf with
      | .ok => .matched extra
      | .err (.hash .io) => .fatal      -- only non-EOF I/O errors; unreachable on a `Cursor`
      | .err (.hash .cancelled) => .fatal
      | .err .panic => .panic
      | .err _ => .mismatched extra

/-! ### BoxHash over an abstract handler box map -/

/-- an entry of the handler's `get_box_map` result: `names`, `range_start`, `range_len` -/
structure SrcBox where
  names : List String
  start : Nat
  len : Nat
  deriving DecidableEq, Repr

/-- an entry of the signed assertion -/
structure BoxEntry where
  names : List String
  alg : Option String
  pre : List UInt8
  excluded : Option Bool
  deriving Repr

structure NameSt where
  idx : Nat
  start : Nat
  len : Nat
  skip : Bool
  deriving DecidableEq, Repr

/-- the inner `for name in &bm.names` loop; `nNames` is `bm.names.len()` -/
def nameLoop (src : List SrcBox) (nNames : Nat) : List String → NameSt → Except VErr NameSt
  | [], st => .ok st
  | name :: rest, st =>
    match src[st.idx]? with
    | none => .error .unknownBox
    | some sb =>
      match sb.names.head? with
      | none => .error .panic                       -- `next_source_bm.names[0]`
      | some n0 =>
        if name = n0 then
          if st.len = 0 then
            if name = "C2PA" then
              if nNames ≠ 1 then .error .malformedC2pa
              else nameLoop src nNames rest { idx := st.idx + 1, start := sb.start, len := sb.len, skip := true }
            else nameLoop src nNames rest { st with idx := st.idx + 1, start := sb.start, len := sb.len }
          else
            if sb.start < st.start then .error .panic   -- unchecked `-`
            else if sb.start - st.start + sb.len > u64Max then .error .panic
            else nameLoop src nNames rest { st with idx := st.idx + 1, len := sb.start - st.start + sb.len }
        else .error .unknownBox

/-- the `for bm in &self.boxes` loop; returns the final `source_index` -/
def boxLoop (src : List SrcBox) (claimAlg : Option String) (data : List UInt8) (buf : Nat) :
    List BoxEntry → Nat → Except VErr Nat
  | [], idx => .ok idx
  | bm :: rest, idx =>
    match nameLoop src bm.names.length bm.names { idx := idx, start := 0, len := 0, skip := false } with
    | .error e => .error e
    | .ok st =>
      if st.skip || bm.excluded.getD false then boxLoop src claimAlg data buf rest st.idx
      else
        match (match bm.alg with | some a => some a | none => claimAlg) with
        | none => .error .noAlg
        | some alg =>
          match compareHash bm.pre (hashModel alg data (some [⟨st.start, st.len, none⟩]) false buf none) with
          | .err e => .error e
          | .ok => boxLoop src claimAlg data buf rest st.idx

/-- the coverage loop of the fix: `none` = a gap before some box; `some e` = `covered_end` -/
def coverLoop : List SrcBox → Nat → Option Nat
  | [], e => some e
  | b :: bs, e =>
    if b.start > e then none
    else coverLoop bs (max e (min (b.start + b.len) u64Max))   -- saturating_add

/-- every source box is a C2PA box (`application/c2pa`: the asset is the manifest store) -/
def onlyC2pa (src : List SrcBox) : Bool := src.all fun b => b.names.head? == some "C2PA"

/-- `BoxHash::verify_stream_hash_with_progress(reader, alg, bhp, progress)`; `src` is the result
of `bhp.get_box_map(reader)` -/
def verifyBox (boxes : List BoxEntry) (claimAlg : Option String) (src : Option (List SrcBox))
    (data : List UInt8) (buf : Nat) : VRes :=
  if boxes.isEmpty then .err .noBoxes
  else
    match src with
    | none => .err .handler
    | some src =>
      match src.head? with
      | none => .err .noSource
      | some first =>
        let idx0 :=
          if first.names.head? = some "PNGh" &&
              (match boxes.head? with
               | some b => (match b.names.head? with | some n => n != "PNGh" | none => false)
               | none => false)
          then 1 else 0
        match boxLoop src claimAlg data buf boxes idx0 with
        | .error e => .err e
        | .ok idx =>
          -- fix F5: every source box must have been matched, and the boxes must cover the
          -- asset without gaps unless the asset is nothing but the manifest store
          if idx ≠ src.length then .err .unknownBox
          else if onlyC2pa src then .ok
          else if coverLoop src 0 = some data.length then .ok
          else .err .unconsumed

/-! ### BMFF file-level hash -/

/-- `BmffHash::verify_stream_hash_with_progress`, file-level part (`self.hash()` present, no
Merkle maps): `resolved` is the result of `bmff_to_jumbf_exclusions` on the asset being
validated (`none` = the resolver failed) -/
def verifyBmff (pre : List UInt8) (alg : String) (resolved : Option (List HashRange))
    (data : List UInt8) (buf : Nat) : VRes :=
  match resolved with
  | none => .err .handler
  | some ex => compareHash pre (hashModel alg data (some ex) true buf none)

/-! ### BMFF exclusion resolution: the `data` constraint of an exclusion entry
(`bmff_to_jumbf_exclusions`, loop over `data_map_vec`) -/

structure DataMap where
  off : Nat
  value : List UInt8
  deriving Repr

/-- the code: for each map `skip_bytes_to(box_start + offset)`, `read_to_vec(value.len())`,
`vec_compare`; the first mismatch ends the loop with "no match". The read does **not** stop at
the end of the box. `none` = the read runs past the end of the file (the resolver fails). -/
def dataMapsCode (file : List UInt8) (boxStart : Nat) : List DataMap → Option Bool
  | [] => some true
  | dm :: rest =>
    if boxStart + dm.off + dm.value.length > file.length then none
    else if (file.drop (boxStart + dm.off)).take dm.value.length = dm.value then
      dataMapsCode file boxStart rest
    else some false

/-- the assertion's wording: every pattern lies inside the box and equals the bytes there -/
def dataMapsSpec (file : List UInt8) (boxStart boxLen : Nat) (dms : List DataMap) : Bool :=
  dms.all fun dm => decide (dm.off + dm.value.length ≤ boxLen) &&
    decide ((file.drop (boxStart + dm.off)).take dm.value.length = dm.value)

/-! ### the box-hash and BMFF arms of `Claim::verify_hash_binding`; status codes -/

/-- how every arm maps the verifier's result: `Ok` -> success entry, a fatal error
(`is_fatal_hash_binding_error`: cancellation, non-EOF I/O) is returned, everything else is logged
as the arm's mismatch failure -/
def verdictOf (r : VRes) (extra : Bool) : Verdict :=
  match r with
  | .ok => .matched extra
  | .err (.hash .io) => .fatal
  | .err (.hash .cancelled) => .fatal
  | .err .panic => .panic
  | .err _ => .mismatched extra

/-- box-hash arm: `hasHandler = false` models `get_assetio_handler(..)` / `asset_box_hash_ref()`
returning `None` — both are propagated with `?` (the validation call fails; nothing is logged) -/
def bindBox (hasHandler : Bool) (boxes : List BoxEntry) (claimAlg : Option String)
    (src : Option (List SrcBox)) (data : List UInt8) (buf : Nat) : Verdict :=
  if !hasHandler then .fatal else verdictOf (verifyBox boxes claimAlg src data buf) false

/-- result of `BmffHash::verify_self` -/
inductive BmffSelf | ok | remote | malformed
  deriving DecidableEq, Repr

/-- BMFF arm (file-level hash, no Merkle maps): `verify_self()?` first; the error
`C2PAValidation(assertion.bmffHash.malformed)` is logged with that code, every other non-fatal
error with `assertion.bmffHash.mismatch` -/
def bindBmff (self : BmffSelf) (pre : List UInt8) (alg : String) (resolved : Option (List HashRange))
    (data : List UInt8) (buf : Nat) : Verdict :=
  match self with
  | .remote => .mismatched false
  | .malformed => .malformed
  | .ok => verdictOf (verifyBmff pre alg resolved data buf) false

/-- the hard-binding kinds (`dataHash`, `boxesHash`, `bmffHash` in the status codes) -/
inductive Kind | data | box | bmff
  deriving DecidableEq, Repr

def Kind.str : Kind → String
  | .data => "dataHash" | .box => "boxesHash" | .bmff => "bmffHash"

/-- the validation status code the arm logs for a verdict, and whether it is a failure entry;
`none`: nothing is logged (the call returns an error / aborts) -/
def Verdict.logged (k : Kind) : Verdict → Option (String × Bool)
  | .matched _ =>
    some (match k with
      | .data => "assertion.dataHash.match"
      | .box => "assertion.boxesHash.match"
      | .bmff => "assertion.bmffHash.match", false)
  | .mismatched _ =>
    some (match k with
      | .data => "assertion.dataHash.mismatch"
      | .box => "assertion.boxesHash.mismatch"
      | .bmff => "assertion.bmffHash.mismatch", true)
  | .malformed =>
    some (match k with
      | .data => "assertion.dataHash.malformed"
      | .box => "assertion.boxesHash.malformed"
      | .bmff => "assertion.bmffHash.malformed", true)
  | .fatal => none
  | .panic => none

/-! ### line protocol -/

def VErr.str : VErr → String
  | .remote => "remote" | .noAlg => "noalg" | .noBoxes => "noboxes" | .noSource => "nosource"
  | .unknownBox => "unknownbox" | .malformedC2pa => "malformedc2pa" | .mismatch => "mismatch"
  | .unconsumed => "unconsumed" | .handler => "handler" | .hash e => "hash-" ++ e.str
  | .panic => "panic"

def VRes.str : VRes → String
  | .ok => "ok"
  | .err e => "err:" ++ e.str

def Verdict.str : Verdict → String
  | .matched x => "match" ++ (if x then "+extra" else "")
  | .mismatched x => "mismatch" ++ (if x then "+extra" else "")
  | .malformed => "malformed"
  | .fatal => "fatal"
  | .panic => "panic"

/-- reply of the verdict-level ops: the verdict and the logged entry
(`<verdict>/<code>/<success|failure>`, or the bare verdict when nothing is logged) -/
def Verdict.reply (k : Kind) (v : Verdict) : String :=
  match v.logged k with
  | some (c, f) => v.str ++ "/" ++ c ++ "/" ++ (if f then "failure" else "success")
  | none => v.str

def optStr (s : String) : Option String := if s == "-" then none else some s

def parseOneRange (s : String) : Option HashRange :=
  match s.splitOn ":" with
  | [a, b] => match a.toNat?, b.toNat? with
    | some x, some y => some ⟨x, y, none⟩
    | _, _ => none
  | _ => none

/-- `name+name:start:len` -/
def parseSrc (s : String) : Option SrcBox :=
  match s.splitOn ":" with
  | [n, a, b] => match a.toNat?, b.toNat? with
    | some x, some y => some ⟨splitList (if n == "-" then "" else n) "+", x, y⟩
    | _, _ => none
  | _ => none

/-- `name+name:alg:prehex:excl` with excl ∈ {-,0,1} -/
def parseEntry (s : String) : Option BoxEntry :=
  match s.splitOn ":" with
  | [n, a, p, e] =>
    match fromHex? p with
    | some pre =>
      some ⟨splitList (if n == "-" then "" else n) "+", optStr a, pre,
        if e == "1" then some true else if e == "0" then some false else none⟩
    | none => none
  | _ => none

/-- apply a mutation descriptor to the original bytes (the harness does the same in Rust):
`flip:pos:mask`, `set:pos:val`, `ins:pos:hex`, `del:pos:n`, `app:hex`, `trunc:n`, `id` -/
def applyMut (d : List UInt8) (m : String) : Option (List UInt8) :=
  match m.splitOn ":" with
  | ["id"] => some d
  | ["flip", p, k] => match p.toNat?, k.toNat? with
    | some p, some k => if p < d.length then some (d.take p ++ [(d.getD p 0) ^^^ UInt8.ofNat k] ++ d.drop (p + 1)) else none
    | _, _ => none
  | ["set", p, v] => match p.toNat?, v.toNat? with
    | some p, some v => if p < d.length then some (d.take p ++ [UInt8.ofNat v] ++ d.drop (p + 1)) else none
    | _, _ => none
  | ["ins", p, h] => match p.toNat?, fromHex? h with
    | some p, some bs => if p ≤ d.length then some (d.take p ++ bs ++ d.drop p) else none
    | _, _ => none
  | ["del", p, n] => match p.toNat?, n.toNat? with
    | some p, some n => if p + n ≤ d.length then some (d.take p ++ d.drop (p + n)) else none
    | _, _ => none
  | ["app", h] => (fromHex? h).map (d ++ ·)
  | ["trunc", n] => n.toNat?.map (d.take ·)
  | _ => none

def getData (toks : List String) : Option (List UInt8) :=
  match fromHex? (field toks "data") with
  | none => none
  | some d => match field? toks "mut" with
    | none => some d
    | some m => applyMut d m

/-- the fields of a box-hash request -/
def parseBh (rest : List String) :
    Option (List UInt8 × Option (List SrcBox) × List BoxEntry × Nat) :=
  let srcS := field rest "src"
  let src : Option (Option (List SrcBox)) :=
    if srcS == "err" then some none
    else ((splitList (if srcS == "-" then "" else srcS) ";").mapM parseSrc).map some
  match getData rest, src,
      (splitList (if field rest "boxes" == "-" then "" else field rest "boxes") ";").mapM parseEntry,
      (field rest "buf").toNat? with
  | some data, some src, some boxes, some buf => if buf = 0 then none else some (data, src, boxes, buf)
  | _, _, _, _ => none

/-- the fields of a BMFF request -/
def parseBmff (rest : List String) :
    Option (List UInt8 × Option (List HashRange) × List UInt8 × Nat) :=
  let exS := field rest "excl"
  let ex : Option (Option (List HashRange)) :=
    if exS == "err" then some none
    else match C13.parseRanges exS with
      | some (some l) => some (some l)
      | _ => none
  match getData rest, ex, fromHex? (field rest "pre"), (field rest "buf").toNat? with
  | some data, some ex, some pre, some buf => if buf = 0 then none else some (data, ex, pre, buf)
  | _, _, _, _ => none

def handle (toks : List String) : String :=
  match toks with
  | "dh" :: rest =>
    match getData rest, C13.parseRanges (field rest "excl"), fromHex? (field rest "pre"),
        (field rest "buf").toNat? with
    | some data, some excl, some pre, some buf =>
      if buf = 0 then "bad-request"
      else
        let range := match field rest "range" with
          | "-" => some none
          | s => (parseOneRange s).map some
        match range with
        | none => "bad-request"
        | some range =>
          (bindData ⟨field rest "url" == "1", optStr (field rest "alg"), excl, pre⟩
            (optStr (field rest "calg")) (field rest "upd" == "1") range data buf).reply .data
    | _, _, _, _ => "bad-request"
  | "bh" :: rest =>
    match parseBh rest with
    | some (data, src, boxes, buf) => (verifyBox boxes (optStr (field rest "calg")) src data buf).str
    | none => "bad-request"
  -- the box-hash arm of `verify_hash_binding` (`handler=0`: the format has no box-hash support)
  | "bhv" :: rest =>
    match parseBh rest with
    | some (data, src, boxes, buf) =>
      (bindBox (field rest "handler" != "0") boxes (optStr (field rest "calg")) src data buf).reply .box
    | none => "bad-request"
  | "bmff" :: rest =>
    match parseBmff rest with
    | some (data, ex, pre, buf) => (verifyBmff pre (field rest "alg") ex data buf).str
    | none => "bad-request"
  -- the BMFF arm of `verify_hash_binding` (`self` = result of `verify_self`)
  | "bmffv" :: rest =>
    match parseBmff rest with
    | some (data, ex, pre, buf) =>
      let self := match field rest "self" with
        | "remote" => BmffSelf.remote
        | "malformed" => BmffSelf.malformed
        | _ => BmffSelf.ok
      (bindBmff self pre (field rest "alg") ex data buf).reply .bmff
    | none => "bad-request"
  -- data constraint of a BMFF exclusion on the box that starts at `start` of `data`
  | "bmx" :: rest =>
    let maps := (splitList (if field rest "maps" == "-" then "" else field rest "maps") ",").mapM fun t =>
      match t.splitOn ":" with
      | [o, h] => match o.toNat?, fromHex? h with
        | some o, some v => some (DataMap.mk o v)
        | _, _ => none
      | _ => none
    match fromHex? (field rest "data"), (field rest "start").toNat?, maps with
    | some d, some st, some ms =>
      match dataMapsCode d st ms with
      | none => "err"
      | some true => "match"
      | some false => "nomatch"
    | _, _, _ => "bad-request"
  -- a case that only carries a property-oracle failure of the implementation (no model content)
  | "oracle" :: _ => "oracle-only"
  | _ => "bad-op"

end C2pa.C01
