import C2paModel.Model.C04
/-
C04 (second part) — model of `ValidationResults::from_store` (sdk/src/validation_results.rs):
how the validation log of a store becomes the results object whose state C04 is about.

  * `ValidationStatus::from_log_item` (sdk/src/validation_status.rs): an item with a status code
    becomes a status of the item's kind that keeps the item's ingredient URI; an item with only an
    `err_val` becomes a *failure* whose code is `code_from_error_str(err_val)` and that has *no*
    ingredient URI; an item with neither is dropped,
  * `manifest_label_from_uri` / `to_normalized_uri` (sdk/src/jumbf/labels.rs),
  * the "already captured in an ingredient assertion" filter (equality of `ValidationStatus` is
    code + url + kind),
  * placement through `ValidationResults::add_status` (by ingredient URI, `Model/C04.lean`).

The store enters through an abstraction: the label of its provenance claim (if any) and the flat
list of statuses recorded in the ingredient assertions of all its claims (after `get_statuses`:
kind recomputed from the code by `log_kind`, relative URLs made absolute). The harness builds real
stores and computes that abstraction.
-/
namespace C2pa.C04

structure LogItem where
  status : Option Code
  err : Option (List Char)
  kind : Kind
  label : List Char
  ingUri : Option (List Char)
  deriving DecidableEq, Repr

/-- the fields of a `ValidationStatus` that `from_store` looks at -/
structure VStatus where
  code : Code
  url : Option (List Char)
  kind : Kind
  ingUri : Option (List Char)
  deriving DecidableEq, Repr

/-- `ValidationStatus::code_from_error_str` -/
def codeFromErrorStr (e : List Char) : Code :=
  if e == "ClaimMissing".toList then "claim.missing".toList
  else if "AssertionMissing".toList.isPrefixOf e then "assertion.missing".toList
  else if "AssertionDecoding".toList.isPrefixOf e then "assertion.required.missing".toList
  else if "HashMismatch".toList.isPrefixOf e then "assertion.dataHash.mismatch".toList
  else if "RemoteManifestFetch".toList.isPrefixOf e then "manifest.inaccessible".toList
  else if "PrereleaseError".toList.isPrefixOf e then "com.adobe.prerelease".toList
  else "general.error".toList

/-- `ValidationStatus::from_log_item` -/
def fromLogItem (it : LogItem) : Option VStatus :=
  match it.status with
  | some c => some { code := c, url := some it.label, kind := it.kind, ingUri := it.ingUri }
  | none =>
    it.err.map fun e =>
      { code := codeFromErrorStr e, url := some it.label, kind := .failure, ingUri := none }

/-- `str::split(sep)` (always at least one piece) -/
def splitC (sep : Char) : List Char → List (List Char)
  | [] => [[]]
  | c :: cs =>
    if c == sep then [] :: splitC sep cs
    else
      match splitC sep cs with
      | [] => [[c]]
      | p :: ps => (c :: p) :: ps

/-- `jumbf::labels::to_normalized_uri` -/
def toNormalizedUri (uri : List Char) : List Char :=
  let out :=
    match splitC '=' uri with
    | [p] => p
    | _ :: p :: _ => p
    | [] => []
  if !out.isEmpty && "c2pa/".toList.isPrefixOf out then '/' :: out else out

/-- `jumbf::labels::manifest_label_from_uri` -/
def manifestLabelFromUri (uri : List Char) : Option (List Char) :=
  match splitC '/' (toNormalizedUri uri) with
  | _ :: p1 :: p2 :: _ => if p1 == "c2pa".toList then some p2 else none
  | _ => none

/-- what `from_store` reads from the store -/
structure StoreAbs where
  /-- label of the provenance claim -/
  active : Option (List Char)
  /-- statuses recorded in the ingredient assertions of all claims -/
  ing : List VStatus
  deriving Repr

/-- `impl PartialEq for ValidationStatus` -/
def VStatus.eqv (a b : VStatus) : Bool :=
  a.code == b.code && a.url == b.url && a.kind == b.kind

/-- the `is_active_manifest` closure -/
def isActiveUrl (lbl : List Char) (u : Option (List Char)) : Bool :=
  match u with
  | some u => manifestLabelFromUri u == some lbl
  | none => false

def VStatus.toStatus (v : VStatus) : Status :=
  { code := v.code, kind := v.kind, uri := v.ingUri }

/-- the `statuses.retain(..)` step, only run when some status is not about the active manifest.
(Follows the repaired code, fixes/C20-from-store-active-claim-status-filter.patch: a status without
ingredient URI — logged while the active claim itself was validated — is never dropped.) -/
def keptStatuses (lbl : List Char) (ing : List VStatus) (sts : List VStatus) : List VStatus :=
  if sts.any (fun s => !isActiveUrl lbl s.url) then
    sts.filter (fun s => s.ingUri.isNone || isActiveUrl lbl s.url || !ing.any (fun i => i.eqv s))
  else sts

/-- `ValidationResults::from_store` (without `validation_time`) -/
def fromStore (st : StoreAbs) (log : List LogItem) : Results :=
  let sts := log.filterMap fromLogItem
  match st.active with
  | none => {}
  | some lbl =>
    ((keptStatuses lbl st.ing sts).map VStatus.toStatus).foldl addStatus
      { active := some {}, deltas := none }

/-! ### line protocol

`C04 fromstore active=<S> ing=<st;st;…|-> log=<item;item;…|->`
  S    = `n` (none) | `h<hex of the ASCII string>`
  st   = `<code>:<S url>:<kind>`
  item = `<code|->:<S err_val>:<kind>:<S label, never n>:<S ingredient uri>`
reply `<state> A=… D=<hexuri>~s;i;f/…`
-/

def parseS (s : String) : Option (List Char) :=
  match s.toList with
  | 'h' :: rest => (fromHexChars rest).map (·.map fun b => Char.ofNat b.toNat)
  | _ => none

def parseKind (k : String) : Kind :=
  if k == "s" then .success else if k == "i" then .informational else .failure

def parseIng (s : String) : Option VStatus :=
  match s.splitOn ":" with
  | [c, u, k] => some { code := c.toList, url := parseS u, kind := parseKind k, ingUri := none }
  | _ => none

def parseItem (s : String) : Option LogItem :=
  match s.splitOn ":" with
  | [c, e, k, l, iu] =>
    some { status := if c == "-" then none else some c.toList, err := parseS e, kind := parseKind k,
           label := (parseS l).getD [], ingUri := parseS iu }
  | _ => none

def hexOfChars (l : List Char) : String :=
  String.join (l.map fun c => hexByte (UInt8.ofNat c.toNat))

def resultsStrHex (r : Results) : String :=
  let a := match r.active with | none => "-" | some c => scStr c
  let d := match r.deltas with
    | none => "-"
    | some [] => "[]"
    | some ds => "/".intercalate (ds.map fun d => hexOfChars d.uri ++ "~" ++ scStr d.codes)
  "A=" ++ a ++ " D=" ++ d

def handleStore (toks : List String) : String :=
  match toks with
  | "fromstore" :: rest =>
    let ingS := field rest "ing"
    let logS := field rest "log"
    let ing := if ingS == "-" then [] else (ingS.splitOn ";").filterMap parseIng
    let log := if logS == "-" then [] else (logS.splitOn ";").filterMap parseItem
    let r := fromStore { active := parseS (field rest "active"), ing := ing } log
    (state r).str ++ " " ++ resultsStrHex r
  | "label" :: rest =>
    match manifestLabelFromUri ((parseS (field rest "uri")).getD []) with
    | none => "n"
    | some l => "h" ++ hexOfChars l
  | _ => handle toks

end C2pa.C04
