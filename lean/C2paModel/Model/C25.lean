import C2paModel.Base
/-
C25 — model of the JSON helpers and the update control flow of `sdk/src/settings/mod.rs`:

  merge_json / merge_json_depth   (MERGE_MAX_DEPTH = 64)
  set_at_path / get_at_path       (path.split('.'))
  parse_to_value                  (format dispatch; the two parsers are inputs)
  Settings::with_string / with_json / with_toml / update_from_str
  Settings::with_value / set_value / get_value
  Settings::from_string / set_thread_local_value   (thread-local value)
  Settings::with_file / from_file                  (extension dispatch, read, from_utf8_lossy)
  IntoSettings for &str / String / serde_json::Value, Context::set_settings (sdk/src/context.rs)
  sequences of updates on one `Settings` (`Op`, `step`, `runOps`)

`serde_json` is built with `preserve_order`: a `Map` is an insertion-ordered association
list with unique keys (`IndexMap`). `Map::insert` on a present key replaces the value in
place, on an absent key appends; `entry(k).or_insert(v)` appends when absent.

A `Settings` value is represented by `serde_json::to_value(settings)`; the composition
deserialize → validate → serialize is the parameter `norm : Json → Except Err Json`
(executed by the real serde in the correspondence run).
-/
namespace C2pa.C25

/-- `serde_json::Value`. Numbers are opaque (their canonical text); merge never looks inside. -/
inductive Json where
  | null
  | bool (b : Bool)
  | num (repr : String)
  | str (s : String)
  | arr (xs : List Json)
  | obj (kvs : List (String × Json))
  deriving Repr, Inhabited

abbrev Fields := List (String × Json)

/-- `Map::get` (first match; keys are unique in a real map). -/
def lookup (k : String) : Fields → Option Json
  | [] => none
  | (k', v) :: rest => if k' = k then some v else lookup k rest

/-- `Map::insert`: replace in place when present, append otherwise. -/
def upsert (k : String) (v : Json) : Fields → Fields
  | [] => [(k, v)]
  | (k', v') :: rest => if k' = k then (k', v) :: rest else (k', v') :: upsert k v rest

/-- `const MERGE_MAX_DEPTH: usize = 64` -/
def mergeMaxDepth : Nat := 64

mutual
/-- `merge_json_depth(target, overlay, depth)`; returns the new target. -/
def mergeDepth (t : Json) (o : Json) (d : Nat) : Json :=
  match t, o with
  | .obj tkvs, .obj okvs =>
    -- `(Object, Object) if depth < MERGE_MAX_DEPTH`
    if d < mergeMaxDepth then .obj (mergeFields tkvs okvs d) else .obj okvs
  | _, o => o
/-- the `for (key, overlay_value) in overlay_map` loop:
`merge_json_depth(target_map.entry(key).or_insert(Null), overlay_value, depth + 1)` -/
def mergeFields (tkvs : Fields) (okvs : Fields) (d : Nat) : Fields :=
  match okvs with
  | [] => tkvs
  | (k, ov) :: rest =>
    mergeFields (upsert k (mergeDepth ((lookup k tkvs).getD .null) ov (d + 1)) tkvs) rest d
end

/-- `merge_json` -/
def mergeJson (t o : Json) : Json := mergeDepth t o 0

/-! ### paths -/

/-- `str::split('.')` on the characters of the path (never empty). -/
def splitDotAux : List Char → List Char → List (List Char)
  | [], cur => [cur.reverse]
  | c :: cs, cur => if c = '.' then cur.reverse :: splitDotAux cs [] else splitDotAux cs (c :: cur)

def splitPath (p : String) : List String := (splitDotAux p.toList []).map String.ofList

inductive Err where
  | parse     -- parse_to_value: document does not parse
  | format    -- parse_to_value: Error::UnsupportedType
  | path      -- set_at_path failed
  | invalid   -- deserialisation or validation failed
  | missing   -- get_value: no value at the path
  | validate (variant : String)  -- `SettingsValidate::validate` failed with this `Error` variant
  | io        -- `std::fs::read` failed (`Error::IoError`)
  | ext       -- `with_file`: the path has no extension / a non-UTF-8 one (`Error::BadParam`)
  deriving DecidableEq, Repr

/-- `if !current.is_object() { *current = Object(Map::new()) }` -/
def fieldsOrEmpty : Json → Fields
  | .obj kvs => kvs
  | _ => []

/-- `set_at_path(target, path, value)` over the path segments; returns the new target. -/
def setAtPath (t : Json) : List String → Json → Except Err Json
  | [], _ => .error .path                               -- "empty path" (after the loop)
  | [s], v => .ok (.obj (upsert s v (fieldsOrEmpty t)))  -- `segments.peek().is_none()`: insert
  | s :: s' :: rest, v =>
    let m := fieldsOrEmpty t
    -- `map.entry(segment).or_insert_with(|| Object(Map::new()))`
    let child := (lookup s m).getD (.obj [])
    match setAtPath child (s' :: rest) v with
    | .ok c => .ok (.obj (upsert s c m))
    | .error e => .error e

/-- `get_at_path(value, path)` over the path segments. -/
def getAtPath (v : Json) : List String → Option Json
  | [] => some v
  | s :: rest =>
    match v with
    | .obj kvs =>
      match lookup s kvs with
      | some c => getAtPath c rest
      | none => none
    | _ => none

/-! ### control flow -/

/-- deserialize → validate → serialize, supplied from outside. -/
abbrev Norm := Json → Except Err Json

/-- What the two document parsers make of one configuration string. -/
structure Doc where
  json : Except Err Json
  toml : Except Err Json

/-- `str::to_lowercase` on the format name (ASCII in the protocol). -/
def lowerAscii (s : String) : String := String.ofList (s.toList.map Char.toLower)

/-- `parse_to_value(settings_str, format)` -/
def parseToValue (doc : Doc) (format : String) : Except Err Json :=
  let f := lowerAscii format
  if f = "json" then doc.json
  else if f = "toml" then doc.toml
  else .error .format

/-- `Settings::with_string` (`with_json`, `with_toml` fix the format). `self` is `to_value(self)`. -/
def withString (norm : Norm) (self : Json) (doc : Doc) (format : String) : Except Err Json :=
  match parseToValue doc format with
  | .error e => .error e
  | .ok overlay =>
    let merged := mergeJson self overlay
    norm merged

/-- `Settings::update_from_str`: `*self = self.with_string(..)?; Ok(())`.
Returns the result and the value of `self` afterwards. -/
def updateFromStr (norm : Norm) (doc : Doc) (format : String) (self : Json) : Except Err Unit × Json :=
  match withString norm self doc format with
  | .ok s => (.ok (), s)
  | .error e => (.error e, self)

/-- `Settings::with_value` -/
def withValue (norm : Norm) (self : Json) (path : String) (v : Json) : Except Err Json :=
  match setAtPath self (splitPath path) v with
  | .error _ => .error .path
  | .ok merged => norm merged

/-- `Settings::set_value`: `*self = self.with_value(..)?; Ok(())` -/
def setValue (norm : Norm) (path : String) (v : Json) (self : Json) : Except Err Unit × Json :=
  match withValue norm self path v with
  | .ok s => (.ok (), s)
  | .error e => (.error e, self)

/-- `Settings::get_value::<Value>` -/
def getValue (self : Json) (path : String) : Except Err Json :=
  match getAtPath self (splitPath path) with
  | some v => .ok v
  | none => .error .missing

/-- `Settings::from_string` (deprecated, thread-local): returns the result and the
thread-local value afterwards. The thread-local keeps the merged, un-normalised value. -/
def fromString (norm : Norm) (doc : Doc) (format : String) (tl : Json) : Except Err Json × Json :=
  match parseToValue doc format with
  | .error e => (.error e, tl)
  | .ok overlay =>
    let merged := mergeJson tl overlay
    match norm merged with
    | .error e => (.error e, tl)
    | .ok s => (.ok s, merged)        -- `SETTINGS.set(merged)` after deserialize + validate

/-- `Settings::set_thread_local_value` -/
def setThreadLocalValue (norm : Norm) (path : String) (v : Json) (tl : Json) : Except Err Unit × Json :=
  match setAtPath tl (splitPath path) v with
  | .error _ => (.error .path, tl)
  | .ok merged =>
    match norm merged with
    | .error e => (.error e, tl)
    | .ok _ => (.ok (), merged)

/-- `impl IntoSettings for &str`: JSON first, then TOML, both starting from `Settings::default()`. -/
def intoSettingsStr (norm : Norm) (dflt : Json) (doc : Doc) : Except Err Json :=
  match updateFromStr norm doc "json" dflt with
  | (.ok _, s) => .ok s
  | (.error _, s) =>
    match updateFromStr norm doc "toml" s with
    | (.ok _, s') => .ok s'
    | (.error e, _) => .error e

/-- `Context::set_settings(&mut self, &str)`: `self.settings = settings.into_settings()?` -/
def setSettingsStr (norm : Norm) (dflt : Json) (doc : Doc) (ctx : Json) : Except Err Unit × Json :=
  match intoSettingsStr norm dflt doc with
  | .ok s => (.ok (), s)
  | .error e => (.error e, ctx)

/-- `impl IntoSettings for serde_json::Value`: `serde_json::to_string(&self)` and then
`Settings::default().update_from_str(&json_str, "json")`. `doc.json` is what the JSON parser makes
of that text (the value itself when serde_json round-trips it; the harness checks that it does). -/
def intoSettingsValue (norm : Norm) (dflt : Json) (doc : Doc) : Except Err Json :=
  match updateFromStr norm doc "json" dflt with
  | (.ok _, s) => .ok s
  | (.error e, _) => .error e

/-- `Context::set_settings(&mut self, Value)` -/
def setSettingsValue (norm : Norm) (dflt : Json) (doc : Doc) (ctx : Json) : Except Err Unit × Json :=
  match intoSettingsValue norm dflt doc with
  | .ok s => (.ok (), s)
  | .error e => (.error e, ctx)

/-! ### files -/

/-- What `Path::extension` and `std::fs::read` give for a settings path. -/
structure FileIn where
  /-- `path.extension()` as `to_string_lossy` renders it; `none`: the path has no extension -/
  ext : Option String
  /-- `OsStr::to_str` succeeds on the extension -/
  extUtf8 : Bool
  /-- `none`: `std::fs::read` failed; otherwise what the two parsers make of
  `String::from_utf8_lossy(bytes)` -/
  read : Option Doc

/-- `Settings::with_file`: extension (`BadParam` when missing or not UTF-8) → read → `with_string`
with the extension as the format name. -/
def withFile (norm : Norm) (self : Json) (f : FileIn) : Except Err Json :=
  match f.ext with
  | none => .error .ext
  | some e =>
    if !f.extUtf8 then .error .ext
    else
      match f.read with
      | none => .error .io
      | some doc => withString norm self doc e

/-- `Settings::from_file` (deprecated, thread-local): extension (`UnsupportedType` when missing,
`to_string_lossy` otherwise) → read → `from_string`. -/
def fromFile (norm : Norm) (f : FileIn) (tl : Json) : Except Err Json × Json :=
  match f.ext with
  | none => (.error .format, tl)
  | some e =>
    match f.read with
    | none => (.error .io, tl)
    | some doc => fromString norm doc e tl

/-! ### sequences of updates on one `Settings` value -/

inductive Op where
  | update (doc : Doc) (fmt : String)      -- `update_from_str` / `with_json` / `with_toml`
  | setv (path : String) (v : Json)        -- `set_value` / `with_value`

/-- one step: the result and the settings afterwards -/
def step (norm : Norm) (self : Json) : Op → Except Err Unit × Json
  | .update doc fmt => updateFromStr norm doc fmt self
  | .setv path v => setValue norm path v self

/-- a history of steps on one settings value: every result, and the settings at the end -/
def runOps (norm : Norm) : Json → List Op → List (Except Err Unit) × Json
  | self, [] => ([], self)
  | self, op :: rest =>
    let r := step norm self op
    let rr := runOps norm r.2 rest
    (r.1 :: rr.1, rr.2)

/-! ### line protocol

value encoding (ASCII, no spaces):
  n | t | f | #<number text>; | s<pct>; | [ value* ] | { (<pct>; value)* }
<pct>: UTF-8 bytes, `[A-Za-z0-9_]` literally, every other byte as `%xx`.
-/

def safeByte (b : UInt8) : Bool :=
  (48 ≤ b && b ≤ 57) || (65 ≤ b && b ≤ 90) || (97 ≤ b && b ≤ 122) || b == 95

def pctEnc (s : String) : String :=
  String.join (s.toUTF8.toList.map fun b =>
    if safeByte b then String.singleton (Char.ofNat b.toNat) else "%" ++ hexByte b)

def pctBytes : List Char → Option (List UInt8)
  | [] => some []
  | '%' :: a :: b :: rest => do
    let x ← hexVal? a
    let y ← hexVal? b
    let r ← pctBytes rest
    pure (UInt8.ofNat (x * 16 + y) :: r)
  | '%' :: _ => none
  | c :: rest => do
    let r ← pctBytes rest
    pure (UInt8.ofNat c.toNat :: r)

def pctDec (cs : List Char) : Option String := do
  let bs ← pctBytes cs
  String.fromUTF8? (ByteArray.mk bs.toArray)

mutual
def enc : Json → String
  | .null => "n"
  | .bool true => "t"
  | .bool false => "f"
  | .num r => "#" ++ r ++ ";"
  | .str s => "s" ++ pctEnc s ++ ";"
  | .arr xs => "[" ++ encList xs ++ "]"
  | .obj kvs => "{" ++ encFields kvs ++ "}"
def encList : List Json → String
  | [] => ""
  | x :: xs => enc x ++ encList xs
def encFields : Fields → String
  | [] => ""
  | (k, v) :: rest => pctEnc k ++ ";" ++ enc v ++ encFields rest
end

/-- insertion into a key-sorted list (for the canonical print only) -/
def insertSorted (k : String) (v : Json) : Fields → Fields
  | [] => [(k, v)]
  | (k', v') :: rest => if k < k' then (k, v) :: (k', v') :: rest else (k', v') :: insertSorted k v rest

mutual
/-- keys sorted recursively (the canonical form compared for settings values) -/
def canon : Json → Json
  | .arr xs => .arr (canonList xs)
  | .obj kvs => .obj (canonFields kvs)
  | j => j
def canonList : List Json → List Json
  | [] => []
  | x :: xs => canon x :: canonList xs
def canonFields : Fields → Fields
  | [] => []
  | (k, v) :: rest => insertSorted k (canon v) (canonFields rest)
end

def encSorted (j : Json) : String := enc (canon j)

mutual
partial def parseVal : List Char → Option (Json × List Char)
  | 'n' :: r => some (.null, r)
  | 't' :: r => some (.bool true, r)
  | 'f' :: r => some (.bool false, r)
  | '#' :: r =>
    let (a, b) := r.span (· ≠ ';')
    some (.num (String.ofList a), b.drop 1)
  | 's' :: r =>
    let (a, b) := r.span (· ≠ ';')
    (pctDec a).map fun s => (.str s, b.drop 1)
  | '[' :: r => parseArr r []
  | '{' :: r => parseObj r []
  | _ => none
partial def parseArr : List Char → List Json → Option (Json × List Char)
  | ']' :: r, acc => some (.arr acc.reverse, r)
  | cs, acc =>
    match parseVal cs with
    | some (v, r) => parseArr r (v :: acc)
    | none => none
partial def parseObj : List Char → Fields → Option (Json × List Char)
  | '}' :: r, acc => some (.obj acc.reverse, r)
  | cs, acc =>
    let (a, b) := cs.span (· ≠ ';')
    match pctDec a, parseVal (b.drop 1) with
    | some k, some (v, r) => parseObj r ((k, v) :: acc)
    | _, _ => none
end

def dec (s : String) : Option Json :=
  match parseVal s.toList with
  | some (j, []) => some j
  | _ => none

/-- a parser result: `!parse` = the parser rejected the text, otherwise the value. -/
def decParse (s : String) : Option (Except Err Json) :=
  if s == "!" then some (.error .parse) else (dec s).map .ok

/-- `norm` as a constant function fixed by the harness for the single merged value of a request:
`!` = rejected by the deserializer (`BadParam`), `!<Variant>` = rejected by `validate` with that
`Error` variant, otherwise the normalised value. -/
def decNorm (s : String) : Option Norm :=
  if s == "!" then some (fun _ => .error .invalid)
  else if s.startsWith "!" then
    let v := String.ofList (s.toList.drop 1)
    some (fun _ => .error (.validate v))
  else (dec s).map fun j => fun _ => .ok j

def decStr (s : String) : Option String := pctDec s.toList

/-- the `c2pa::Error` variant the caller sees -/
def Err.str : Err → String
  | .parse => "BadParam" | .path => "BadParam" | .invalid => "BadParam" | .missing => "BadParam"
  | .ext => "BadParam"
  | .format => "UnsupportedType"
  | .io => "IoError"
  | .validate v => v

/-- `ext=-` no extension, otherwise the (lossy) extension; `u=1|0`; `rd=0` read failed. -/
def decFile (rest : List String) : Option FileIn :=
  let e := field rest "ext"
  let ext? : Option (Option String) := if e == "-" then some none else (decStr e).map some
  match ext?, decParse (field rest "pj"), decParse (field rest "pt") with
  | some ext, some pj, some pt =>
    some { ext := ext, extUtf8 := field rest "u" == "1",
           read := if field rest "rd" == "0" then none else some { json := pj, toml := pt } }
  | _, _, _ => none

def mergedOf (tl : Json) (doc : Doc) (fmt : String) : String :=
  match parseToValue doc fmt with
  | .ok ov => enc (mergeJson tl ov)
  | .error _ => "-"

def handle (toks : List String) : String :=
  match toks with
  | "merge" :: rest =>
    match dec (field rest "t"), dec (field rest "o"), (field rest "d").toNat? with
    | some t, some o, some d => enc (mergeDepth t o d)
    | _, _, _ => "bad-request"
  | "set" :: rest =>
    match dec (field rest "t"), decStr (field rest "p"), dec (field rest "v") with
    | some t, some p, some v =>
      match setAtPath t (splitPath p) v with
      | .ok r => "ok " ++ enc r
      | .error _ => "err"
    | _, _, _ => "bad-request"
  | "get" :: rest =>
    match dec (field rest "t"), decStr (field rest "p") with
    | some t, some p =>
      match getAtPath t (splitPath p) with
      | some r => "some " ++ enc r
      | none => "none"
    | _, _ => "bad-request"
  | "getval" :: rest =>
    match dec (field rest "cur"), decStr (field rest "p") with
    | some t, some p =>
      match getValue t p with
      | .ok r => "ok " ++ encSorted r
      | .error e => "err:" ++ e.str
    | _, _ => "bad-request"
  | "update" :: rest =>
    match dec (field rest "cur"), decStr (field rest "fmt"), decParse (field rest "pj"),
      decParse (field rest "pt"), decNorm (field rest "n") with
    | some cur, some fmt, some pj, some pt, some norm =>
      let doc : Doc := { json := pj, toml := pt }
      let m := mergedOf cur doc fmt
      match updateFromStr norm doc fmt cur with
      | (.ok _, s) => "m=" ++ m ++ " ok s=" ++ encSorted s
      | (.error e, s) => "m=" ++ m ++ " err:" ++ e.str ++ " s=" ++ encSorted s
    | _, _, _, _, _ => "bad-request"
  | "setval" :: rest =>
    match dec (field rest "cur"), decStr (field rest "p"), dec (field rest "v"), decNorm (field rest "n") with
    | some cur, some p, some v, some norm =>
      let m := match setAtPath cur (splitPath p) v with | .ok r => enc r | .error _ => "-"
      match setValue norm p v cur with
      | (.ok _, s) => "m=" ++ m ++ " ok s=" ++ encSorted s
      | (.error e, s) => "m=" ++ m ++ " err:" ++ e.str ++ " s=" ++ encSorted s
    | _, _, _, _ => "bad-request"
  | "tlfrom" :: rest =>
    match dec (field rest "tl"), decStr (field rest "fmt"), decParse (field rest "pj"),
      decParse (field rest "pt"), decNorm (field rest "n") with
    | some tl, some fmt, some pj, some pt, some norm =>
      let doc : Doc := { json := pj, toml := pt }
      match fromString norm doc fmt tl with
      | (.ok s, tl') => "ok s=" ++ encSorted s ++ " tl=" ++ enc tl'
      | (.error e, tl') => "err:" ++ e.str ++ " tl=" ++ enc tl'
    | _, _, _, _, _ => "bad-request"
  | "tlset" :: rest =>
    match dec (field rest "tl"), decStr (field rest "p"), dec (field rest "v"), decNorm (field rest "n") with
    | some tl, some p, some v, some norm =>
      match setThreadLocalValue norm p v tl with
      | (.ok _, tl') => "ok tl=" ++ enc tl'
      | (.error e, tl') => "err:" ++ e.str ++ " tl=" ++ enc tl'
    | _, _, _, _ => "bad-request"
  | "ctx" :: rest =>
    match dec (field rest "dflt"), dec (field rest "cur"), decParse (field rest "pj"),
      decParse (field rest "pt"), decNorm (field rest "nj"), decNorm (field rest "nt") with
    | some dflt, some cur, some pj, some pt, some nj, some nt =>
      let doc : Doc := { json := pj, toml := pt }
      -- the harness supplies `norm` on the two merged values it can be asked about
      let mj := match pj with | .ok ov => some (enc (mergeJson dflt ov)) | .error _ => none
      let norm : Norm := fun m => if some (enc m) == mj then nj m else nt m
      match setSettingsStr norm dflt doc cur with
      | (.ok _, s) => "ok s=" ++ encSorted s
      | (.error e, s) => "err:" ++ e.str ++ " s=" ++ encSorted s
    | _, _, _, _, _, _ => "bad-request"
  | "ctxval" :: rest =>
    match dec (field rest "dflt"), dec (field rest "cur"), decParse (field rest "pj"), decNorm (field rest "n") with
    | some dflt, some cur, some pj, some norm =>
      let doc : Doc := { json := pj, toml := .error .parse }
      match setSettingsValue norm dflt doc cur with
      | (.ok _, s) => "ok s=" ++ encSorted s
      | (.error e, s) => "err:" ++ e.str ++ " s=" ++ encSorted s
    | _, _, _, _ => "bad-request"
  | "file" :: rest =>
    match dec (field rest "cur"), decFile rest, decNorm (field rest "n") with
    | some cur, some f, some norm =>
      match withFile norm cur f with
      | .ok s => "ok s=" ++ encSorted s
      | .error e => "err:" ++ e.str
    | _, _, _ => "bad-request"
  | "tlfile" :: rest =>
    match dec (field rest "tl"), decFile rest, decNorm (field rest "n") with
    | some tl, some f, some norm =>
      match fromFile norm f tl with
      | (.ok s, tl') => "ok s=" ++ encSorted s ++ " tl=" ++ enc tl'
      | (.error e, tl') => "err:" ++ e.str ++ " tl=" ++ enc tl'
    | _, _, _ => "bad-request"
  | _ => "bad-op"

end C2pa.C25
