import C2paModel.Base
/-
C34 — model of the JUMBF label / URI helpers of `sdk/src/jumbf/labels.rs`
(`ManifestParts` `Display`, `manifest_label_to_parts`, `to_manifest_uri`, `to_assertion_uri`,
`to_signature_uri`, `to_verifiable_credential_uri`, `to_databox_uri`, `to_normalized_uri`,
`to_absolute_uri`, `to_relative_uri`, `manifest_label_from_uri`, `assertion_label_from_uri`,
`box_name_from_uri`), of `Claim::label_with_instance` / `Claim::assertion_label_from_link`
(`sdk/src/claim.rs`) and of the thumbnail label helpers they call
(`get_thumbnail_type`, `get_thumbnail_image_type`, `get_thumbnail_instance`, `sdk/src/assertion.rs`).

Strings are `List Char` (Rust `str::split(char)`, `split(&str)` with an ASCII pattern,
`starts_with`, `contains` act on chars exactly as they act on the UTF-8 bytes).
`P α = Option α` is the *panic* layer: `none` means the Rust code would panic (index or
slice out of range). Every `v[i]` of the Rust code is an `idx v i` here, at the same
place and under the same guards, so that `no_panic` is a theorem and not a definition.
`Option` *inside* `P` is the Rust `Option` the function returns.
-/
namespace C2pa.C34

abbrev Str := List Char

/-- panic layer: `none` = the Rust code panics -/
abbrev P (α : Type) := Option α

/-- `v[i]` (panics when out of range) -/
def idx {α : Type} (l : List α) (i : Nat) : P α := l[i]?

/-- `&v[i..]` (panics when `i > len`) -/
def sliceFrom {α : Type} (l : List α) (i : Nat) : P (List α) :=
  if i ≤ l.length then some (l.drop i) else none

/-! ### string primitives -/

def headCons (c : Char) : List Str → List Str
  | [] => [[c]]
  | h :: t => (c :: h) :: t

/-- `s.split(sep)` for a `char` (or one-char `&str`) separator; never empty. -/
def splitOnC (sep : Char) : Str → List Str
  | [] => [[]]
  | c :: cs => if c = sep then [] :: splitOnC sep cs else headCons c (splitOnC sep cs)

/-- `s.split("__")`: leftmost, non-overlapping matches. -/
def splitDU : Str → List Str
  | [] => [[]]
  | [a] => [[a]]
  | a :: b :: rest =>
    if a = '_' ∧ b = '_' then [] :: splitDU rest else headCons a (splitDU (b :: rest))

/-- `v.join(sep)` -/
def joinWith (sep : Char) : List Str → Str
  | [] => []
  | [a] => a
  | a :: b :: rest => a ++ sep :: joinWith sep (b :: rest)

/-- `s.contains(pat)` -/
def containsSub (pat : Str) : Str → Bool
  | [] => pat.isEmpty
  | c :: cs => pat.isPrefixOf (c :: cs) || containsSub pat cs

def toAsciiLower (c : Char) : Char :=
  if 'A' ≤ c ∧ c ≤ 'Z' then Char.ofNat (c.toNat + 32) else c

/-- `char::is_whitespace` (Unicode `White_Space`) -/
def isWs (c : Char) : Bool :=
  let n := c.toNat
  (9 ≤ n && n ≤ 13) || n == 32 || n == 0x85 || n == 0xA0 || n == 0x1680
    || (0x2000 ≤ n && n ≤ 0x200A) || n == 0x2028 || n == 0x2029 || n == 0x202F
    || n == 0x205F || n == 0x3000

def wsTokAux (inTok : Bool) : Str → Nat
  | [] => 0
  | c :: cs =>
    if isWs c then wsTokAux false cs
    else (if inTok then 0 else 1) + wsTokAux true cs

/-- `s.split_whitespace().count()` -/
def wsTokenCount (s : Str) : Nat := wsTokAux false s

/-- `s.is_ascii()` -/
def isAscii (s : Str) : Bool := s.all (fun c => c.toNat < 128)

/-- `s.len()` (UTF-8 bytes) -/
def utf8Len : Str → Nat
  | [] => 0
  | c :: cs => c.utf8Size + utf8Len cs

/-! ### `usize` printing and parsing -/

def digitChar (d : Nat) : Char := Char.ofNat (48 + d)

def showNatF : Nat → Nat → Str
  | 0, _ => []
  | f + 1, n => if n < 10 then [digitChar n] else showNatF f (n / 10) ++ [digitChar (n % 10)]

/-- `format!("{n}")` for an unsigned integer -/
def showNat (n : Nat) : Str := showNatF (n + 1) n

def digitVal? (c : Char) : Option Nat :=
  if '0' ≤ c ∧ c ≤ '9' then some (c.toNat - 48) else none

def digitsVal : Str → Nat → Option Nat
  | [], acc => some acc
  | c :: cs, acc =>
    match digitVal? c with
    | none => none
    | some d => digitsVal cs (acc * 10 + d)

def usizeLimit : Nat := 18446744073709551616

/-- `s.parse::<usize>().ok()` on a 64-bit target: optional single leading `+`, then one or
more ASCII digits (leading zeros allowed), value below 2^64. -/
def parseUsize (s : Str) : Option Nat :=
  let digits :=
    match s with
    | [] => s
    | c :: r => if c = '+' then r else s
  if digits.isEmpty then none
  else
    match digitsVal digits 0 with
    | none => none
    | some v => if v < usizeLimit then some v else none

/-! ### constants -/

def cManifestStore : Str := "c2pa".toList
def cAssertions : Str := "c2pa.assertions".toList
def cSignature : Str := "c2pa.signature".toList
def cCredentials : Str := "c2pa.credentials".toList
def cDataboxes : Str := "c2pa.databoxes".toList
def cJumbfPrefix : Str := "self#jumbf".toList
def cClaimThumb : Str := "c2pa.thumbnail.claim".toList
def cIngThumb : Str := "c2pa.thumbnail.ingredient".toList
def cUrn : Str := "urn".toList
def cUuid : Str := "uuid".toList
def cC2pa : Str := "c2pa".toList

/-! ### URI builders -/

/-- `to_manifest_uri` -/
def toManifestUri (m : Str) : Str :=
  cJumbfPrefix ++ ('=' :: '/' :: (cManifestStore ++ '/' :: m))

/-- `to_assertion_uri` -/
def toAssertionUri (m a : Str) : Str :=
  toManifestUri m ++ '/' :: (cAssertions ++ '/' :: a)

/-- `to_signature_uri` -/
def toSignatureUri (m : Str) : Str :=
  toManifestUri m ++ '/' :: cSignature

/-- `to_verifiable_credential_uri` -/
def toCredentialUri (m v : Str) : Str :=
  toManifestUri m ++ '/' :: (cCredentials ++ '/' :: v)

/-- `to_databox_uri` -/
def toDataboxUri (m d : Str) : Str :=
  toManifestUri m ++ '/' :: (cDataboxes ++ '/' :: d)

/-! ### URI readers -/

/-- `to_normalized_uri` -/
def toNormalizedUri (uri : Str) : P Str := do
  let parts := splitOnC '=' uri
  let output ← if parts.length = 1 then idx parts 0 else idx parts 1
  if !output.isEmpty && (cManifestStore ++ ['/']).isPrefixOf output then
    pure ('/' :: output)
  else
    pure output

/-- `parts.len() > minLen && parts[i] == s` (short-circuit) -/
def lenGtAndEq (parts : List Str) (minLen i : Nat) (s : Str) : P Bool :=
  if parts.length > minLen then (idx parts i).map (· == s) else some false

/-- `to_absolute_uri` -/
def toAbsoluteUri (m uri : Str) : P Str := do
  let raw ← toNormalizedUri uri
  let parts := splitOnC '/' raw
  if ← lenGtAndEq parts 2 1 cManifestStore then
    pure uri
  else
    pure (toManifestUri m ++ '/' :: raw)

/-- `to_relative_uri` -/
def toRelativeUri (uri : Str) : P Str := do
  let raw ← toNormalizedUri uri
  let parts := splitOnC '/' raw
  if ← lenGtAndEq parts 4 1 cManifestStore then
    let tail ← sliceFrom parts 3
    pure (cJumbfPrefix ++ '=' :: joinWith '/' tail)
  else
    pure uri

/-- `manifest_label_from_uri` -/
def manifestLabelFromUri (uri : Str) : P (Option Str) := do
  let raw ← toNormalizedUri uri
  let parts := splitOnC '/' raw
  if ← lenGtAndEq parts 2 1 cManifestStore then
    let p2 ← idx parts 2
    pure (some p2)
  else
    pure none

/-- `assertion_label_from_uri` -/
def assertionLabelFromUri (uri : Str) : P (Option Str) := do
  let raw ← toNormalizedUri uri
  let parts := splitOnC '/' raw
  let c1 ←
    (if ← lenGtAndEq parts 4 1 cManifestStore then do
      let p3 ← idx parts 3
      pure (p3 == cAssertions || p3 == cDataboxes)
    else pure false : P Bool)
  if c1 then
    let p4 ← idx parts 4
    pure (some p4)
  else if ← lenGtAndEq parts 1 0 cAssertions then
    let p1 ← idx parts 1
    pure (some p1)
  else
    pure none

/-- `box_name_from_uri` -/
def boxNameFromUri (uri : Str) : P (Option Str) := do
  let raw ← toNormalizedUri uri
  let parts := splitOnC '/' raw
  pure parts.getLast?

/-! ### manifest label parts -/

structure Parts where
  guid : Str
  isV1 : Bool
  cgi : Option Str
  version : Option Nat
  reason : Option Nat
  deriving DecidableEq, Repr

/-- `impl Display for ManifestParts` -/
def display (p : Parts) : Str :=
  if p.isV1 then
    match p.cgi with
    | some vendor => vendor ++ ":urn:uuid:".toList ++ p.guid
    | none => "urn:uuid:".toList ++ p.guid
  else
    let mp := "urn:c2pa:".toList ++ p.guid
    let mp :=
      match p.cgi with
      | some vendor => mp ++ ':' :: vendor
      | none => mp
    match p.version with
    | some version =>
      let mp :=
        if p.cgi.isSome then mp ++ ':' :: showNat version
        else mp ++ ':' :: ':' :: showNat version
      match p.reason with
      | some reason => mp ++ '_' :: showNat reason
      | none => mp
    | none => mp

/-- the three vendor tests: `len() > 32 || split_whitespace().count() != 1 || !is_ascii()` -/
def vendorBad (v : Str) : Bool :=
  utf8Len v > 32 || wsTokenCount v != 1 || !isAscii v

/-- The `parts[3]` block. Inner `none` = the function returns `None`. -/
def parseVendor (parts : List Str) : P (Option (Option Str)) :=
  if parts.length > 3 then do
    let p3 ← idx parts 3
    if !p3.isEmpty then
      if vendorBad p3 then pure none else pure (some (some p3))
    else pure (some none)
  else pure (some none)

/-- The `parts[4]` block. Inner `none` = the function returns `None` (`.ok()?`). -/
def parseVersion (parts : List Str) : P (Option (Option Nat × Option Nat)) :=
  if parts.length > 4 then do
    let p4 ← idx parts 4
    if !p4.isEmpty then
      let vp := splitOnC '_' p4
      let v0 ← idx vp 0
      match parseUsize v0 with
      | none => pure none
      | some ver =>
        match vp[1]? with
        | some r =>
          match parseUsize r with
          | none => pure none
          | some rr => pure (some (some ver, some rr))
        | none => pure (some (some ver, none))
    else pure (some (none, none))
  else pure (some (none, none))

/-- `manifest_label_to_parts` -/
def manifestLabelToParts (uri : Str) : P (Option Parts) := do
  let ml ← manifestLabelFromUri uri
  let manifest := ml.getD uri
  let parts := splitOnC ':' manifest
  if parts.length < 3 then pure none
  else
    let p0 ← idx parts 0
    let p1 ← idx parts 1
    if p0 == cUrn || p1 == cUrn then
      if p0 == cUrn && p1 != cUrn then
        let isV1 := p1 == cUuid
        if !isV1 && p1 != cC2pa then pure none
        else
          let guid ← idx parts 2
          if !isV1 then
            if parts.length > 5 then pure none
            else
              match ← parseVendor parts with
              | none => pure none
              | some vendor =>
                match ← parseVersion parts with
                | none => pure none
                | some (version, reason) =>
                  pure (some { guid := guid, isV1 := false, cgi := vendor,
                               version := version, reason := reason })
          else
            pure (some { guid := guid, isV1 := true, cgi := none, version := none, reason := none })
      else
        let p2 ← idx parts 2
        if p2 == cUuid then
          if parts.length != 4 then pure none
          else
            let guid ← idx parts 3
            pure (some { guid := guid, isV1 := true, cgi := some p0, version := none, reason := none })
        else pure none
    else pure none

/-! ### instance suffixes (`claim.rs`, `assertion.rs`) -/

/-- `get_thumbnail_type` -/
def thumbnailType (l : Str) : Str :=
  if cClaimThumb.isPrefixOf l then cClaimThumb
  else if cIngThumb.isPrefixOf l then cIngThumb
  else "none".toList

/-- `get_thumbnail_image_type` -/
def thumbnailImageType (l : Str) : P (Option Str) :=
  let comps := splitOnC '.' l
  if containsSub "thumbnail".toList l && comps.length ≥ 4 then do
    let c3 ← idx comps 3
    let it := splitOnC '_' c3
    let i0 ← idx it 0
    pure (some (i0.map toAsciiLower))
  else pure none

/-- `get_thumbnail_instance` -/
def thumbnailInstance (l : Str) : P (Option Nat) :=
  if thumbnailType l == cIngThumb then
    let comps := splitDU l
    if comps.length = 2 then do
      let c1 ← idx comps 1
      let sub := splitOnC '.' c1
      let s0 ← idx sub 0
      pure (parseUsize s0)
    else pure (some 0)
  else pure none

/-- `Claim::label_with_instance` -/
def labelWithInstance (l : Str) (n : Nat) : P Str :=
  if n = 0 then pure l
  else if thumbnailType l == cIngThumb then do
    let out := thumbnailType l ++ '_' :: '_' :: showNat n
    match ← thumbnailImageType l with
    | some it => pure (out ++ '.' :: it)
    | none => pure out
  else pure (l ++ '_' :: '_' :: showNat n)

/-- body of the `if let Some(s) = v2.last()` branch of `assertion_label_from_link` -/
def labelAndInstance (s : Str) : P (Str × Nat) :=
  if thumbnailType s == cIngThumb then do
    let inst ← thumbnailInstance s
    match ← thumbnailImageType s with
    | none => pure (thumbnailType s, inst.getD 0)
    | some it => pure (thumbnailType s ++ '.' :: it, inst.getD 0)
  else do
    let lp := splitDU s
    let inst ← (if lp.length = 2 then do
        let p1 ← idx lp 1
        pure ((parseUsize p1).getD 0)
      else pure 0 : P Nat)
    let l0 ← idx lp 0
    pure (l0, inst)

/-- `Claim::assertion_label_from_link` -/
def assertionLabelFromLink (link : Str) : P (Str × Nat) := do
  let v ← toNormalizedUri link
  let v2 := splitOnC '/' v
  match v2.getLast? with
  | some s => labelAndInstance s
  | none => do
    let v0 ← idx v2 0
    pure (v0, 0)

/-! ### labels of new claims (`Claim::new`, `Builder::to_claim`) and conflict relabelling -/

/-- `char::is_ascii_graphic` -/
def asciiGraphic (c : Char) : Bool := 33 ≤ c.toNat && c.toNat ≤ 126

/-- `is_valid_vendor` (labels.rs): the test `Builder::to_claim` applies to the definition's
vendor before it generates a label -/
def vendorOk (v : Str) : Bool :=
  !v.isEmpty && utf8Len v ≤ 32
    && v.all (fun c => asciiGraphic c && !(c == ':' || c == '/' || c == '='))

/-- `str::to_lowercase` **on an ASCII string** (the Unicode mapping of non-ASCII characters is
not modelled; the driver is only given ASCII vendors, and `vendorOk` refuses all others). -/
def lowerAscii (v : Str) : Str := v.map toAsciiLower

/-- The label `Claim::new` computes from the fresh UUID (hyphenated, lower case), the vendor
and the claim version (`v1` = claim version 1). The vendor is only lower-cased. -/
def newLabel (uuid : Str) (vendor : Option Str) (v1 : Bool) : Str :=
  match vendor with
  | some v =>
    if v1 then lowerAscii v ++ ':' :: ("urn:uuid".toList ++ ':' :: uuid)
    else "urn:c2pa".toList ++ ':' :: (uuid ++ ':' :: lowerAscii v)
  | none =>
    if v1 then "urn:uuid:".toList ++ uuid
    else "urn:c2pa".toList ++ ':' :: uuid

/-- The label of the claim `Builder::to_claim` creates when the definition carries no label of
its own: `none` = `Err(BadParam)` (vendor refused). -/
def builderLabel (uuid : Str) (vendor : Option Str) (v1 : Bool) : Option Str :=
  match vendor with
  | some v => if vendorOk v then some (newLabel uuid vendor v1) else none
  | none => some (newLabel uuid vendor v1)

/-- `new_mp.version = Some(new_version); new_mp.reason = Some(CONFLICTING_MANIFEST)`
(store.rs, conflict resolution) -/
def relabelParts (p : Parts) (newVersion : Nat) : Parts :=
  { p with version := some newVersion, reason := some 1 }

/-- The relabelling step of the store's ingredient conflict resolution on a label read from
a file: `manifest_label_to_parts(conflict_label)?`, set version and reason, `to_string()`.
Inner `none` = `Err("ingredient label malformed")`. -/
def conflictRelabel (label : Str) (newVersion : Nat) : P (Option Str) := do
  match ← manifestLabelToParts label with
  | none => pure none
  | some p => pure (some (display (relabelParts p newVersion)))

/-! ### line protocol

Strings travel as lower-case hex of their UTF-8 bytes (`-` = empty).
  disp g=<hex> v1=<0|1> cgi=<none|hex> ver=<-|n> rsn=<-|n>   -> ok <hex>
  parts s=<hex>      -> ok none | ok some g=<hex> v1=<0|1> cgi=<none|hex> ver=<-|n> rsn=<-|n> | panic
  muri m= | auri m= a= | suri m= | curi m= a= | duri m= a=    -> ok <hex>
  norm s= | rel s= | abs m= s=                                -> ok <hex> | panic
  mlabel s= | alabel s= | box s=                              -> ok none | ok some:<hex> | panic
  lwi l=<hex> n=<dec>                                         -> ok <hex> | panic
  link s=<hex>                                                -> ok <hex> <n> | panic
  vendorok v=<hex>                                            -> ok <0|1>
  newlabel g=<hex> v=<none|hex> cv=<1|2>                      -> ok <hex>
  blabel g=<hex> v=<none|hex> cv=<1|2>                        -> ok <hex> | err
  relabel s=<hex> n=<dec>                                     -> ok none | ok some:<hex> | panic
-/

def strOfHex (h : String) : Option Str :=
  match fromHex? h with
  | none => none
  | some bs => (String.fromUTF8? ⟨bs.toArray⟩).map String.toList

def hexOfStr (s : Str) : String := toHex (String.ofList s).toUTF8.toList

def optStrOut : Option Str → String
  | none => "none"
  | some s => "some:" ++ hexOfStr s

def optNatOut : Option Nat → String
  | none => "-"
  | some n => toString n

def optNatIn (s : String) : Option Nat := if s == "-" then none else s.toNat?

def pOut {α : Type} (f : α → String) : P α → String
  | none => "panic"
  | some a => "ok " ++ f a

def partsOut : Option Parts → String
  | none => "none"
  | some p =>
    "some g=" ++ hexOfStr p.guid ++ " v1=" ++ (if p.isV1 then "1" else "0")
      ++ " cgi=" ++ (match p.cgi with | none => "none" | some v => hexOfStr v)
      ++ " ver=" ++ optNatOut p.version ++ " rsn=" ++ optNatOut p.reason

def handle (toks : List String) : String :=
  let str (k : String) : Option Str := strOfHex (field toks k)
  match toks with
  | "disp" :: _ =>
    match str "g" with
    | none => "bad-request"
    | some g =>
      let cgiS := field toks "cgi"
      let cgi : Option (Option Str) := if cgiS == "none" then some none else (strOfHex cgiS).map some
      match cgi with
      | none => "bad-request"
      | some cgi =>
        "ok " ++ hexOfStr (display { guid := g, isV1 := field toks "v1" == "1", cgi := cgi,
                                     version := optNatIn (field toks "ver"),
                                     reason := optNatIn (field toks "rsn") })
  | "parts" :: _ =>
    match str "s" with
    | none => "bad-request"
    | some s => pOut partsOut (manifestLabelToParts s)
  | "muri" :: _ =>
    match str "m" with
    | some m => "ok " ++ hexOfStr (toManifestUri m)
    | none => "bad-request"
  | "suri" :: _ =>
    match str "m" with
    | some m => "ok " ++ hexOfStr (toSignatureUri m)
    | none => "bad-request"
  | "auri" :: _ =>
    match str "m", str "a" with
    | some m, some a => "ok " ++ hexOfStr (toAssertionUri m a)
    | _, _ => "bad-request"
  | "curi" :: _ =>
    match str "m", str "a" with
    | some m, some a => "ok " ++ hexOfStr (toCredentialUri m a)
    | _, _ => "bad-request"
  | "duri" :: _ =>
    match str "m", str "a" with
    | some m, some a => "ok " ++ hexOfStr (toDataboxUri m a)
    | _, _ => "bad-request"
  | "norm" :: _ =>
    match str "s" with
    | some s => pOut hexOfStr (toNormalizedUri s)
    | none => "bad-request"
  | "rel" :: _ =>
    match str "s" with
    | some s => pOut hexOfStr (toRelativeUri s)
    | none => "bad-request"
  | "abs" :: _ =>
    match str "m", str "s" with
    | some m, some s => pOut hexOfStr (toAbsoluteUri m s)
    | _, _ => "bad-request"
  | "mlabel" :: _ =>
    match str "s" with
    | some s => pOut optStrOut (manifestLabelFromUri s)
    | none => "bad-request"
  | "alabel" :: _ =>
    match str "s" with
    | some s => pOut optStrOut (assertionLabelFromUri s)
    | none => "bad-request"
  | "box" :: _ =>
    match str "s" with
    | some s => pOut optStrOut (boxNameFromUri s)
    | none => "bad-request"
  | "lwi" :: _ =>
    match str "l", (field toks "n").toNat? with
    | some l, some n => pOut hexOfStr (labelWithInstance l n)
    | _, _ => "bad-request"
  | "link" :: _ =>
    match str "s" with
    | some s => pOut (fun (r : Str × Nat) => hexOfStr r.1 ++ " " ++ toString r.2) (assertionLabelFromLink s)
    | none => "bad-request"
  | "vendorok" :: _ =>
    match str "v" with
    | some v => "ok " ++ (if vendorOk v then "1" else "0")
    | none => "bad-request"
  | "newlabel" :: _ =>
    let vS := field toks "v"
    let vend : Option (Option Str) := if vS == "none" then some none else (strOfHex vS).map some
    match str "g", vend with
    | some g, some vend => "ok " ++ hexOfStr (newLabel g vend (field toks "cv" == "1"))
    | _, _ => "bad-request"
  | "blabel" :: _ =>
    let vS := field toks "v"
    let vend : Option (Option Str) := if vS == "none" then some none else (strOfHex vS).map some
    match str "g", vend with
    | some g, some vend =>
      match builderLabel g vend (field toks "cv" == "1") with
      | some l => "ok " ++ hexOfStr l
      | none => "err"
    | _, _ => "bad-request"
  | "relabel" :: _ =>
    match str "s", (field toks "n").toNat? with
    | some s, some n => pOut optStrOut (conflictRelabel s n)
    | _, _ => "bad-request"
  | _ => "bad-op"

end C2pa.C34
