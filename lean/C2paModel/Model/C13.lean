import C2paModel.Base
/-
C13 — model of `hash_stream_by_alg_with_progress_impl` (sdk/src/utils/hash_utils.rs), as it
stands after fixes/C13-range-end-check.patch (every range is end-checked) and
fixes/C13-marker-tag.patch (BMFF offset entries are tagged instead of being recognised by
`start == end && bmff_v2_starts.contains(start)`).

* `u64`/`u32`/`usize` values are `Nat`; every Rust operation that can overflow/underflow is an
  explicit test here: `checked_*` gives the Rust error, an unchecked operator gives `panic`
  (the harness builds with overflow checks on, as `cargo test` does).
* Hashing is a parameter: the model returns the byte string fed to `Hasher::update`, in order.
* `RangeSet<[RangeInclusive<u64>;1]>` (crate `range-set` 0.1.0) is modelled by its abstract
  behaviour on sorted disjoint inclusive ranges: `remove_range` subtracts an interval from
  every stored range (`removeRange`); validated by the correspondence run.
* `sort_by_key` / `sort_by` / `sort` are stable sorts: modelled by stable insertion sort.
* The progress callback records `(step,total)` and fails with `OperationCancelled` at its
  `cancel`-th call.
* The worker-thread hand-off of the non-wasm branch is modelled twice: sequentially inside
  `chunkLoop` (the worker absorbs chunk i before the main thread continues after `recv`), and
  as a two-actor small-step system (`PStep`) whose every schedule is shown equivalent.
  The `cfg!(target_arch = "wasm32")` branch is not compiled on the checked target.
-/
namespace C2pa.C13

def u64Max : Nat := 18446744073709551615
def u32Max : Nat := 4294967295

/-- `HashRange { start, length, bmff_offset }` -/
structure HashRange where
  start : Nat
  length : Nat
  off : Option Nat
  deriving DecidableEq, Repr

/-- canonical error classes (`Error::UnsupportedType`, `OtherError("no data to hash")`,
`BadParam(_)`, `IoError(_)`, `OperationCancelled`) -/
inductive Err | unsupported | nodata | badparam | io | cancelled
  deriving DecidableEq, Repr

/-- `arith`: u64 overflow/underflow in an unchecked operator; `counter`: overflow of the `u32`
progress counters `total`/`step`; `fuel`: the chunk loop did not terminate (model artefact). -/
inductive Panic | arith | counter | fuel
  deriving DecidableEq, Repr

/-- An entry of the final `ranges` vector: inclusive range + "is a BMFF V2 offset entry". -/
structure Piece where
  lo : Nat
  hi : Nat
  marker : Bool
  deriving DecidableEq, Repr

/-- an early exit: a Rust `Err(_)` (with the progress calls made so far) or a panic -/
inductive Stop
  | err (e : Err) (prog : List (Nat × Nat))
  | panic (p : Panic)
  deriving DecidableEq, Repr

inductive Outcome
  | ok (absorbed : List UInt8) (prog : List (Nat × Nat))
  | err (e : Err) (prog : List (Nat × Nat))
  | panic (p : Panic)
  deriving DecidableEq, Repr

def Stop.out : Stop → Outcome
  | .err e p => .err e p
  | .panic p => .panic p

/-! ### stable sort -/

/-- insert `x` after every element whose key is `≤ key x` (stable) -/
def insertAfter {α : Type} (key : α → Nat) (x : α) : List α → List α
  | [] => [x]
  | y :: ys => if key y ≤ key x then y :: insertAfter key x ys else x :: y :: ys

/-- stable sort by a `Nat` key (`slice::sort_by_key`, `sort_by`, `sort`) -/
def stableSort {α : Type} (key : α → Nat) (l : List α) : List α :=
  l.foldl (fun acc x => insertAfter key x acc) []

/-! ### range arithmetic -/

/-- `u64::checked_add` -/
def checkedAdd (a b : Nat) : Option Nat :=
  if a + b ≤ u64Max then some (a + b) else none

/-- the end check (fixed code): maximum of `start.checked_add(length)` over all entries,
`none` = overflow -/
def maxEnd : List HashRange → Nat → Option Nat
  | [], m => some m
  | r :: rs, m =>
    match checkedAdd r.start r.length with
    | none => none
    | some e => maxEnd rs (max m e)

/-- what is left of one stored range `r` after removing `s..=e` -/
def removeOne (s e : Nat) (r : Nat × Nat) : List (Nat × Nat) :=
  if r.2 < s ∨ e < r.1 then [r]
  else (if r.1 < s then [(r.1, s - 1)] else []) ++ (if e < r.2 then [(e + 1, r.2)] else [])

/-- `RangeSet::remove_range(s..=e)` on the list of stored ranges -/
def removeRange (s e : Nat) (rs : List (Nat × Nat)) : List (Nat × Nat) :=
  if e < s then rs else rs.flatMap (removeOne s e)

/-- the `for exclusion in hr` loop: remaining ranges and collected `bmff_v2_starts` -/
def exclLoop : List HashRange → List (Nat × Nat) → List Nat →
    Except Err (List (Nat × Nat) × List Nat)
  | [], rs, ms => .ok (rs, ms)
  | x :: xs, rs, ms =>
    match x.off with
    | some o => exclLoop xs rs (ms ++ [o])
    | none =>
      if x.length = 0 then exclLoop xs rs ms
      else
        match checkedAdd x.start x.length with
        | none => .error .badparam
        | some e1 =>
          if e1 = 0 then .error .badparam  -- checked_sub(1)
          else exclLoop xs (removeRange x.start (e1 - 1) rs) ms

/-- the inner `for os in &bmff_v2_starts` loop on one remaining range, followed by
`ranges_vec.push((current_range, false))` -/
def splitRun : List Nat → Nat × Nat → List Piece
  | [], cur => [⟨cur.1, cur.2, false⟩]
  | os :: rest, cur =>
    if cur.1 ≤ os ∧ os ≤ cur.2 then
      if cur.1 = os then ⟨os, os, true⟩ :: splitRun rest cur
      else ⟨cur.1, os - 1, false⟩ :: ⟨os, os, true⟩ :: splitRun rest (os, cur.2)
    else splitRun rest cur

def Piece.contains (p : Piece) (x : Nat) : Bool := p.lo ≤ x && x ≤ p.hi

/-- "add in remaining BMFF V2 offsets": the vector grows while the loop runs -/
def remaining (before after : Nat) : List Nat → List Piece → List Piece
  | [], vec => vec
  | os :: rest, vec =>
    if !vec.any (·.contains os) && before < os && os < after then
      remaining before after rest (vec ++ [⟨os, os, true⟩])
    else remaining before after rest vec

/-- exclusion branch after the loop -/
def exclPieces (dataEnd : Nat) (rs : List (Nat × Nat)) (ms : List Nat) : List Piece :=
  if ms.isEmpty then rs.map fun r => ⟨r.1, r.2, false⟩
  else
    let starts := stableSort id ms
    let vec := rs.flatMap (splitRun starts)
    let before := match vec.head? with | some p => p.lo | none => 0
    let after := match vec.getLast? with | some p => p.hi | none => dataEnd
    stableSort Piece.lo (remaining before after starts vec)

/-- the `for inclusion in hr` loop -/
def inclLoop : List HashRange → Except Stop (List Piece)
  | [] => .ok []
  | x :: xs =>
    if x.length = 0 then inclLoop xs
    else
      match checkedAdd x.start x.length with
      | none => .error (.err .badparam [])
      | some e1 =>
        if e1 = 0 then .error (.panic .arith)  -- `… - 1`, unchecked
        else
          match inclLoop xs with
          | .error o => .error o
          | .ok ps =>
            .ok ((match x.off with | some o => [⟨o, o, true⟩] | none => []) ++
              (⟨x.start, e1 - 1, false⟩ : Piece) :: ps)

/-- the `let ranges = match hash_range { … }` block -/
def buildPieces (dataLen : Nat) (hr : Option (List HashRange)) (isExcl : Bool) :
    Except Stop (List Piece) :=
  match hr with
  | some (h :: t) =>
    let hr := stableSort HashRange.start (h :: t)
    match maxEnd hr 0 with
    | none => .error (.err .badparam [])
    | some rangeEnd =>
      if dataLen < rangeEnd then .error (.err .badparam [])
      else if isExcl then
        match exclLoop hr [(0, dataLen - 1)] [] with
        | .error e => .error (.err e [])
        | .ok (rs, ms) => .ok (exclPieces (dataLen - 1) rs ms)
      else inclLoop hr
  | _ => .ok [⟨0, dataLen - 1, false⟩]

/-! ### progress counters -/

/-- `(len as usize).div_ceil(max_hash_buf) as u32` with `len = end - start + 1` -/
def pieceChunks (buf : Nat) (p : Piece) : Except Stop Nat :=
  if p.hi < p.lo then .error (.panic .arith)
  else if p.hi - p.lo + 1 > u64Max then .error (.panic .arith)
  else .ok (((p.hi - p.lo + 1 + (buf - 1)) / buf) % (u32Max + 1))

/-- `.sum()` of `u32` (overflow checked) -/
def totalOf (buf : Nat) : List Piece → Nat → Except Stop Nat
  | [], acc => .ok acc
  | p :: ps, acc =>
    match pieceChunks buf p with
    | .error o => .error o
    | .ok c => if acc + c > u32Max then .error (.panic .counter) else totalOf buf ps (acc + c)

structure St where
  absorbed : List UInt8 := []
  step : Nat := 0
  prog : List (Nat × Nat) := []
  deriving Repr

/-- `step += 1; progress(step, total)?;` -/
def tick (total : Nat) (cancel : Option Nat) (st : St) : Except Stop St :=
  if st.step + 1 > u32Max then .error (.panic .counter)
  else
    let prog := st.prog ++ [(st.step + 1, total)]
    if cancel = some prog.length then .error (.err .cancelled prog)
    else .ok { st with step := st.step + 1, prog := prog }

/-- `u64::to_be_bytes` -/
def be64 (o : Nat) : List UInt8 :=
  [56, 48, 40, 32, 24, 16, 8, 0].map fun s => UInt8.ofNat ((o / 2 ^ s) % 256)

/-- `Read::read_exact` of `n` bytes at stream position `pos` (`Cursor`) -/
def readExact (data : List UInt8) (pos n : Nat) : Option (List UInt8) :=
  if pos + n ≤ data.length then some ((data.drop pos).take n) else none

/-- the inner `loop` of the non-wasm branch; `chunk` has been read, `left` is `chunk_left`
before `chunk_left -= chunk.len()`, `pos` the stream position -/
def chunkLoop (data : List UInt8) (buf total : Nat) (cancel : Option Nat) :
    Nat → Nat → List UInt8 → Nat → St → Except Stop St
  | 0, _, _, _, _ => .error (.panic .fuel)
  | fuel + 1, pos, chunk, left, st =>
    if left < chunk.length then .error (.panic .arith)
    else
      let left' := left - chunk.length
      if left' = 0 then .ok { st with absorbed := st.absorbed ++ chunk }
      else
        -- the worker thread absorbs `chunk` while this thread reads the next one
        let n := min left' buf
        match readExact data pos n with
        | none => .error (.err .io st.prog)
        | some next =>
          match tick total cancel { st with absorbed := st.absorbed ++ chunk } with
          | .error o => .error o
          | .ok st2 => chunkLoop data buf total cancel fuel (pos + n) next left' st2

/-- one iteration of `for (r, is_bmff_v2_offset) in ranges` -/
def runPiece (data : List UInt8) (buf total : Nat) (cancel : Option Nat) (p : Piece) (st : St) :
    Except Stop St :=
  match tick total cancel st with
  | .error o => .error o
  | .ok st1 =>
    if p.hi < p.lo then .error (.panic .arith)
    else if p.hi - p.lo + 1 > u64Max then .error (.panic .arith)
    else
      let left := p.hi - p.lo + 1
      if p.marker then .ok { st1 with absorbed := st1.absorbed ++ be64 p.lo }
      else
        let n := min left buf
        match readExact data p.lo n with
        | none => .error (.err .io st1.prog)
        | some chunk => chunkLoop data buf total cancel left (p.lo + n) chunk left st1

def runPieces (data : List UInt8) (buf total : Nat) (cancel : Option Nat) :
    List Piece → St → Except Stop St
  | [], st => .ok st
  | p :: ps, st =>
    match runPiece data buf total cancel p st with
    | .error o => .error o
    | .ok st1 => runPieces data buf total cancel ps st1

def supported (alg : String) : Bool := alg == "sha256" || alg == "sha384" || alg == "sha512"

/-- `hash_stream_by_alg_with_progress_impl` -/
def hashModel (alg : String) (data : List UInt8) (hr : Option (List HashRange)) (isExcl : Bool)
    (buf : Nat) (cancel : Option Nat) : Outcome :=
  if !supported alg then .err .unsupported []
  else if data.length < 1 then .err .nodata []
  else
    match buildPieces data.length hr isExcl with
    | .error o => o.out
    | .ok pieces =>
      match totalOf buf pieces 0 with
      | .error o => o.out
      | .ok total =>
        match runPieces data buf total cancel pieces {} with
        | .error o => o.out
        | .ok st => .ok st.absorbed st.prog

/-! ### environment: worker threads cannot be created

`std::thread::Builder::new().name(..).spawn(..)?` fails when the OS refuses a new thread
(EAGAIN, no memory for the stack): the `?` turns the `io::Error` into `Error::IoError`, after
the progress calls made so far, before the next chunk is read. `spawnOk = false` is an
environment in which every spawn fails; with `spawnOk = true` the functions below coincide
with the ones above (`hashModelE_true`, Lemmas/C13Env.lean). A range that fits one chunk
never spawns. (`Error::ThreadReceiveError` needs the worker to drop the sender without
sending, i.e. `Hasher::update` to panic: not reachable.) -/

def chunkLoopE (spawnOk : Bool) (data : List UInt8) (buf total : Nat) (cancel : Option Nat) :
    Nat → Nat → List UInt8 → Nat → St → Except Stop St
  | 0, _, _, _, _ => .error (.panic .fuel)
  | fuel + 1, pos, chunk, left, st =>
    if left < chunk.length then .error (.panic .arith)
    else
      let left' := left - chunk.length
      if left' = 0 then .ok { st with absorbed := st.absorbed ++ chunk }
      else if !spawnOk then .error (.err .io st.prog)
      else
        let n := min left' buf
        match readExact data pos n with
        | none => .error (.err .io st.prog)
        | some next =>
          match tick total cancel { st with absorbed := st.absorbed ++ chunk } with
          | .error o => .error o
          | .ok st2 => chunkLoopE spawnOk data buf total cancel fuel (pos + n) next left' st2

def runPieceE (spawnOk : Bool) (data : List UInt8) (buf total : Nat) (cancel : Option Nat)
    (p : Piece) (st : St) : Except Stop St :=
  match tick total cancel st with
  | .error o => .error o
  | .ok st1 =>
    if p.hi < p.lo then .error (.panic .arith)
    else if p.hi - p.lo + 1 > u64Max then .error (.panic .arith)
    else
      let left := p.hi - p.lo + 1
      if p.marker then .ok { st1 with absorbed := st1.absorbed ++ be64 p.lo }
      else
        let n := min left buf
        match readExact data p.lo n with
        | none => .error (.err .io st1.prog)
        | some chunk => chunkLoopE spawnOk data buf total cancel left (p.lo + n) chunk left st1

def runPiecesE (spawnOk : Bool) (data : List UInt8) (buf total : Nat) (cancel : Option Nat) :
    List Piece → St → Except Stop St
  | [], st => .ok st
  | p :: ps, st =>
    match runPieceE spawnOk data buf total cancel p st with
    | .error o => .error o
    | .ok st1 => runPiecesE spawnOk data buf total cancel ps st1

/-- `hash_stream_by_alg_with_progress_impl` in an environment where thread creation
succeeds (`spawnOk`) or always fails -/
def hashModelE (spawnOk : Bool) (alg : String) (data : List UInt8) (hr : Option (List HashRange))
    (isExcl : Bool) (buf : Nat) (cancel : Option Nat) : Outcome :=
  if !supported alg then .err .unsupported []
  else if data.length < 1 then .err .nodata []
  else
    match buildPieces data.length hr isExcl with
    | .error o => o.out
    | .ok pieces =>
      match totalOf buf pieces 0 with
      | .error o => o.out
      | .ok total =>
        match runPiecesE spawnOk data buf total cancel pieces {} with
        | .error o => o.out
        | .ok st => .ok st.absorbed st.prog

/-! ### the read-ahead pipeline as a two-actor system

One range with chunks `c₁ … cₙ` (in read order). `main` holds the chunk it has read; for a
non-final chunk it moves the hasher and the chunk into a worker, reads the next chunk while
the worker runs, then receives the hasher back through the channel. The hasher (here: the
bytes absorbed so far) lives in exactly one of `mainH`, `worker`, `chan`. -/

structure PState where
  unread : List (List UInt8)            -- chunks still in the stream
  cur : Option (List UInt8)             -- `chunk`
  next : Option (List UInt8)            -- `next_chunk`
  mainH : Option (List UInt8)           -- hasher owned by the main thread
  worker : Option (List UInt8 × List UInt8)  -- spawned worker: (hasher, chunk), not yet run
  chan : Option (List UInt8)            -- hasher sent back, not yet received
  done : Bool
  deriving DecidableEq, Repr

inductive PStep : PState → PState → Prop
  /-- last chunk: `hasher.update(&chunk); break` on the main thread -/
  | inlineLast (c h) :
    PStep ⟨[], some c, none, some h, none, none, false⟩ ⟨[], none, none, some (h ++ c), none, none, true⟩
  /-- `thread::spawn(move || …)`: hasher and chunk move into the worker -/
  | spawn (u us c h) :
    PStep ⟨u :: us, some c, none, some h, none, none, false⟩ ⟨u :: us, none, none, none, some (h, c), none, false⟩
  /-- worker: `hasher.update(&chunk); tx.send(hasher)` -/
  | workerRun (us nx h c) :
    PStep ⟨us, none, nx, none, some (h, c), none, false⟩ ⟨us, none, nx, none, none, some (h ++ c), false⟩
  /-- main: `read_exact(&mut next_chunk)` while the worker may or may not have run -/
  | readNext (u us w ch) :
    PStep ⟨u :: us, none, none, none, w, ch, false⟩ ⟨us, none, some u, none, w, ch, false⟩
  /-- main: `rx.recv()`, then `chunk = next_chunk` -/
  | recv (us nx h) :
    PStep ⟨us, none, some nx, none, none, some h, false⟩ ⟨us, some nx, none, some h, none, none, false⟩

inductive PReach : PState → PState → Prop
  | refl (s) : PReach s s
  | step {s t u} : PReach s t → PStep t u → PReach s u

/-- initial state: first chunk read, hasher `h0` on the main thread -/
def pInit (h0 : List UInt8) (c : List UInt8) (cs : List (List UInt8)) : PState :=
  ⟨cs, some c, none, some h0, none, none, false⟩

/-! ### line protocol -/

def parseRange (s : String) : Option HashRange :=
  match s.splitOn ":" with
  | [a, b, c] =>
    match a.toNat?, b.toNat? with
    | some st, some ln =>
      if c == "-" then some ⟨st, ln, none⟩
      else match c.toNat? with
        | some o => some ⟨st, ln, some o⟩
        | none => none
    | _, _ => none
  | _ => none

def parseRanges (s : String) : Option (Option (List HashRange)) :=
  if s == "none" then some none
  else if s == "-" then some (some [])
  else (s.splitOn ",").mapM parseRange |>.map some

def progStr (p : List (Nat × Nat)) : String :=
  match p with
  | [] => "0@0"
  | (_, t) :: _ =>
    if p == (List.range p.length).map (fun i => (i + 1, t)) then s!"{p.length}@{t}"
    else ",".intercalate (p.map fun (s, t) => s!"{s}/{t}")

def Err.str : Err → String
  | .unsupported => "unsupported" | .nodata => "nodata" | .badparam => "badparam"
  | .io => "io" | .cancelled => "cancelled"

def Outcome.str : Outcome → String
  | .ok a p => "ok sel=" ++ toHex a ++ " prog=" ++ progStr p
  | .err e p => "err " ++ e.str ++ " prog=" ++ progStr p
  | .panic _ => "panic"

def handle (toks : List String) : String :=
  match toks with
  | "hash" :: rest =>
    let mode := field rest "mode"
    let cancelS := field rest "cancel"
    match (field rest "buf").toNat?, parseRanges (field rest "ranges"), fromHex? (field rest "data") with
    | some buf, some hr, some data =>
      if buf = 0 then "bad-request"
      else
        let cancel := if cancelS == "-" then none else cancelS.toNat?
        -- `env=nospawn`: every `thread::Builder::spawn` fails; absent / anything else: succeeds
        let spawnOk := !(field rest "env" == "nospawn")
        (hashModelE spawnOk (field rest "alg") data hr (mode == "excl") buf cancel).str
    | _, _, _ => "bad-request"
  | _ => "bad-op"

end C2pa.C13
