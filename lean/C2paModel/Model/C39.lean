import C2paModel.Base
/-
C39 — model of how an ingredient is captured and merged:

* `Ingredient::add_stream_internal` → `update_validation_status` (sdk/src/ingredient.rs): what is
  recorded from the stand-alone validation of the ingredient asset. `armOf` is the arm selection of
  the `match result` by error class, `record` is the body of every arm (with the two conditions of
  the `Ok` arm: `active_manifest` only when the store has a provenance claim, `manifest_data` only
  when manifest bytes were handed in), `addStreamInternal` is the caller (load the manifest bytes,
  validate them against the asset, record);
* `Ingredient::add_to_claim` (`addToClaim`): the manifest reference of the ingredient assertion comes
  from the recorded manifest data (not from `active_manifest`); a version 1 claim gets a v2
  ingredient assertion (reference + `validation_status`), a version 2 claim a v3 assertion, whose
  serialiser enforces "`activeManifest` and `validationResults` both present or both absent"
  (`toAssertion`);
* `Store::load_ingredient_to_claim` + `Claim::add_ingredient_data` /
  `replace_ingredient_or_insert` (sdk/src/store.rs, sdk/src/claim.rs): the merge of the
  ingredient's manifest store into the claim's ingredient store (`merge`), with the gates
  "ingredient missing provenance claim", "ingredient version too new" (provenance claim newer than
  the claim), `VersionCompatibility` (any added claim newer than the claim) and the label-conflict
  branch as coded;
* `ValidationResults::from_store` (sdk/src/validation_results.rs): which statuses logged while the
  parent is read are reported, given the statuses already captured in ingredient assertions
  (`fromStore`) — the relation between the recorded results and the parent Reader's ingredient
  deltas.

A manifest is its label (parsed by `manifest_label_to_parts` into guid / version / reason), an
opaque content (claim + assertion + signature bytes; equality of contents is equality of
`get_manifest_box_hashes`) and the claim version of its claim. The provenance (active) claim of a
store is its last manifest (`insert_restored_claim` moves the provenance path on every insertion).
Not modelled: redaction-explained conflicts (`manifest_differs_by_redaction` — `merge` takes the
answer of that function as a parameter and keeps its three arms), redaction-driven removal of
ingredient manifests, `get_claim_referenced_manifests` errors, OCSP capture, thumbnails, ingredient
fields preset through the ingredient JSON (the ingredient is assumed fresh).
-/
namespace C2pa.C39

/-- a manifest label as `manifest_label_to_parts` sees it (version/reason only appear on
relabelled manifests: `urn:c2pa:<guid>::<version>_<reason>`) -/
structure MLabel where
  guid : String
  version : Option Nat
  reason : Option Nat
  deriving DecidableEq, Repr

structure Man where
  label : MLabel
  content : String
  /-- `claim_version` of the manifest's claim -/
  ver : Nat
  deriving DecidableEq, Repr

/-- a manifest store / the claim's ingredient store, in insertion order -/
abbrev MStore := List Man

def lookup : MStore → MLabel → Option String
  | [], _ => none
  | m :: ms, l => if m.label = l then some m.content else lookup ms l

/-- `Claim::replace_ingredient_or_insert` (a map keyed by label plus the insertion-ordered
label list) -/
def replaceOrInsert : MStore → Man → MStore
  | [], m => [m]
  | x :: xs, m => if x.label = m.label then m :: xs else x :: replaceOrInsert xs m

/-- `Store::provenance_claim`: the last manifest of the store -/
def provenance (s : MStore) : Option Man := s.getLast?

/-- a validation status. `manifest` = label of the manifest the status URL points into, `path` the
rest of the URL; `ingUri` = `ingredient_uri` (set on statuses logged while an ingredient is
validated; not serialised). kind 0 = success, 1 = informational, 2 = failure -/
structure Status where
  kind : Nat
  code : String
  manifest : String
  path : String
  ingUri : Option String
  deriving DecidableEq, Repr

/-- `impl PartialEq for ValidationStatus`: code, url and kind -/
def Status.same (a b : Status) : Bool :=
  a.kind == b.kind && a.code == b.code && a.manifest == b.manifest && a.path == b.path

abbrev Results := List Status

def failures (r : Results) : List String := (r.filter (·.kind == 2)).map (·.code)

/-- `ValidationResults::validation_errors` as codes: `None` when there is no failure -/
def statusOf (r : Results) : Option (List String) :=
  if failures r = [] then none else some (failures r)

/-- the error classes `update_validation_status` distinguishes -/
inductive ErrClass
  | jumbfNotFound
  | provenanceMissing
  | unsupportedType
  /-- `BadParam("unrecognized file type")` -/
  | unrecognizedFileType
  | remoteManifestUrl
  | remoteManifestFetch
  | operationCancelled
  | other
  deriving DecidableEq, Repr

/-- outcome of validating the ingredient asset on its own, by arm of `update_validation_status` -/
inductive ReadOutcome
  /-- "no claims but valid file" -/
  | noManifest
  /-- a store was produced; `results` = `ValidationResults::from_store(store, log)` -/
  | ok (store : MStore) (results : Results)
  | inaccessible
  | cancelled
  /-- any other `Err(e)`; `logged` = the statuses of the validation log -/
  | hardError (logged : Results)
  deriving DecidableEq, Repr

/-- the arm selection of the `match result` in `update_validation_status` -/
def armOf (c : ErrClass) (logged : Results) : ReadOutcome :=
  match c with
  | .jumbfNotFound | .provenanceMissing | .unsupportedType | .unrecognizedFileType => .noManifest
  | .remoteManifestUrl | .remoteManifestFetch => .inaccessible
  | .operationCancelled => .cancelled
  | .other => .hardError logged

/-- what the `Ingredient` records -/
structure IngRec where
  active : Option MLabel
  data : Option MStore
  results : Option Results
  /-- `validation_status` (failure codes) -/
  status : Option (List String)
  deriving DecidableEq, Repr

def inaccessibleStatus : Status := ⟨2, "manifest.inaccessible", "", "", none⟩

/-- `update_validation_status(result, manifest_bytes, log)` on a fresh ingredient; `none` = the call
itself fails (`OperationCancelled`) -/
def record (o : ReadOutcome) (bytes : Option MStore) : Option IngRec :=
  match o with
  | .noManifest => some ⟨none, none, none, none⟩
  | .ok store results =>
    -- active_manifest only `if let Some(claim) = store.provenance_claim()`,
    -- manifest_data only `if let Some(bytes) = manifest_bytes`
    some ⟨(provenance store).map (·.label), bytes, some results, statusOf results⟩
  | .inaccessible => some ⟨none, none, some [inaccessibleStatus], some ["manifest.inaccessible"]⟩
  | .cancelled => none
  | .hardError logged => some ⟨none, none, some logged, statusOf logged⟩

/-- `add_stream_internal`: `load` = `Store::load_jumbf_from_stream` (nothing is logged when it
fails), `validate` = `Store::from_manifest_data_and_stream` on the loaded bytes (the store it returns
is the parsed bytes) -/
def addStreamInternal (load : Except ErrClass MStore)
    (validate : MStore → Except (ErrClass × Results) Results) : Option IngRec :=
  match load with
  | .error c => record (armOf c []) none
  | .ok bytes =>
    match validate bytes with
    | .ok results => record (.ok bytes results) (some bytes)
    | .error (c, logged) => record (armOf c logged) (some bytes)

/-- the same seen from the outcome: in the `ok` case the bytes are the store -/
def addStream (o : ReadOutcome) : Option IngRec :=
  record o (match o with | .ok s _ => some s | _ => none)

inductive Err
  | bothOrNeither        -- "Ingredient v3 activeManifest and validationResults must both be present or absent"
  | labelMalformed       -- OtherError("ingredient label malformed")
  | notFound
  | missingProvenance    -- OtherError("ingredient missing provenace claim")
  | versionTooNew        -- OtherError("ingredient version too new")
  | versionCompatibility -- Error::VersionCompatibility
  | claimVersion         -- Error::ClaimVersion
  deriving DecidableEq, Repr

/-- the ingredient assertion: manifest reference (`c2pa_manifest` / `activeManifest`),
`validationResults` (v3 only), `validation_status` (v2 assertion only) -/
structure IngAssertion where
  manifestRef : Option MLabel
  results : Option Results
  status : Option (List String)
  deriving DecidableEq, Repr

/-- the tail of `add_to_claim` + the assertion serialiser -/
def toAssertion (claimVersion : Nat) (ref : Option MLabel) (i : IngRec) : Except Err IngAssertion :=
  if claimVersion = 1 then .ok ⟨ref, none, i.status⟩
  else if claimVersion = 2 then
    if ref.isSome == i.results.isSome then .ok ⟨ref, i.results, none⟩ else .error .bothOrNeither
  else .error .claimVersion

/-- how `manifest_differs_by_redaction` classifies a conflict -/
inductive RedactionKind
  | notByRedaction
  | onlyInClaim      -- redactions only on the claim's side: the incoming copy is dropped
  | onlyInIncoming   -- only on the incoming side: the incoming copy overwrites
  | both
  deriving DecidableEq, Repr

/-- labels of the incoming store that exist in the claim's ingredient store with another content -/
def conflicts (cur inc : MStore) : List Man :=
  inc.filter fun m => match lookup cur m.label with
    | some c => c != m.content
    | none => false

def maxVersion (s : MStore) : Option Nat :=
  match s.filterMap (·.label.version) with
  | [] => none
  | v :: vs => some (vs.foldl max v)

/-- the conflict loop of `load_ingredient_to_claim` (claim version > 1, resolution not skipped):
returns the claim's store (with relabelled copies added through `add_ingredient_data`, which checks
the claim version) and the labels to drop from the incoming store -/
def resolve (claimVersion : Nat) (kind : Man → RedactionKind) : List Man → MStore → List MLabel →
    Except Err (MStore × List MLabel)
  | [], cur, drop => .ok (cur, drop)
  | m :: ms, cur, drop =>
    match kind m with
    | .onlyInClaim => resolve claimVersion kind ms cur (drop ++ [m.label])
    | .onlyInIncoming => resolve claimVersion kind ms cur drop
    | .both => resolve claimVersion kind ms cur drop
    | .notByRedaction =>
      match maxVersion cur with
      | none => .error .labelMalformed
      | some v =>
        let fixup : Man := { m with label := { m.label with version := some (v + 1), reason := some 1 } }
        if fixup.ver > claimVersion then .error .versionCompatibility
        else resolve claimVersion kind ms (replaceOrInsert cur fixup) drop

/-- `Store::load_ingredient_to_claim`: the claim's ingredient store afterwards -/
def merge (claimVersion : Nat) (skip : Bool) (kind : Man → RedactionKind) (cur inc : MStore) :
    Except Err MStore :=
  match provenance inc with
  | none => .error .missingProvenance
  | some pc =>
    if claimVersion < pc.ver then .error .versionTooNew
    else
      match (if claimVersion > 1 && !skip then resolve claimVersion kind (conflicts cur inc) cur []
             else .ok (cur, [])) with
      | .error e => .error e
      | .ok (cur', drop) =>
        let adds := inc.filter fun m => !drop.contains m.label
        -- `add_ingredient_data`: "make sure the ingredient is version compatible"
        if adds.any (fun m => decide (m.ver > claimVersion)) then .error .versionCompatibility
        else .ok (adds.foldl replaceOrInsert cur')

/-- adding the manifest stores of a list of ingredients, in order (`Builder::to_claim` loop) -/
def mergeAll (claimVersion : Nat) (skip : Bool) (kind : Man → RedactionKind) :
    List MStore → MStore → Except Err MStore
  | [], cur => .ok cur
  | s :: ss, cur =>
    match merge claimVersion skip kind cur s with
    | .error e => .error e
    | .ok cur' => mergeAll claimVersion skip kind ss cur'

/-- `Ingredient::add_to_claim`: the claim's ingredient store afterwards and the ingredient assertion -/
def addToClaim (claimVersion : Nat) (skip : Bool) (kind : Man → RedactionKind) (cur : MStore)
    (i : IngRec) : Except Err (MStore × IngAssertion) :=
  match i.data with
  | none =>
    match toAssertion claimVersion none i with
    | .error e => .error e
    | .ok a => .ok (cur, a)
  | some store =>
    match merge claimVersion skip kind cur store with
    | .error e => .error e
    | .ok cur' =>
      match toAssertion claimVersion ((provenance store).map (·.label)) i with
      | .error e => .error e
      | .ok a => .ok (cur', a)

/-! ### resource lookup of `add_to_claim` -/

/-- a resource store: identifier ↦ content (identifiers are unique per store only: every ingredient
created from a stream keeps its manifest under `manifest_data.c2pa` in its OWN store) -/
abbrev RStore (α : Type) := List (String × α)

def rget {α : Type} : RStore α → String → Option α
  | [], _ => none
  | (k, v) :: rest, id => if k = id then some v else rget rest id

/-- the `get_resource` closure of `Ingredient::add_to_claim`: the ingredient's own resource store
first, then the Builder's ("for Builder model, ingredient resources may be in the manifest") -/
def getResource {α : Type} (own builder : RStore α) (id : String) : Option α :=
  match rget own id with
  | some r => some r
  | none => rget builder id

/-- `add_to_claim` of an ingredient whose manifest data is referenced by identifier: the data is
resolved through `getResource` (a reference that resolves nowhere is `Error::NotFound`) -/
def addToClaimRef (claimVersion : Nat) (skip : Bool) (kind : Man → RedactionKind) (cur : MStore)
    (i : IngRec) (dataId : Option String) (own builder : RStore MStore) :
    Except Err (MStore × IngAssertion) :=
  match dataId with
  | none => addToClaim claimVersion skip kind cur { i with data := none }
  | some id =>
    match getResource own builder id with
    | none => .error .notFound
    | some s => addToClaim claimVersion skip kind cur { i with data := some s }

/-! ### the parent's read: which logged statuses are reported -/

/-- `ValidationResults::from_store`: `active` = label of the store's provenance claim, `captured` =
all statuses found in the ingredient assertions of the store (made absolute), `logged` = the
statuses of the validation log. -/
def fromStore (active : Option String) (captured logged : List Status) : List Status :=
  match active with
  | none => []
  | some a =>
    if logged.any (fun s => s.manifest != a) then
      logged.filter fun s => s.ingUri.isNone || s.manifest == a || !captured.any (·.same s)
    else logged

/-- the failure entries of `ingredientDeltas` (`add_status` files a status with an ingredient URI
under that ingredient) -/
def deltaFailures (reported : List Status) : List Status :=
  reported.filter fun s => s.ingUri.isSome && s.kind == 2

/-! ### line protocol -/

/-- `label:content:claimVersion[:labelVersion]`, comma separated, `-` = empty -/
def parseStore (s : String) : MStore :=
  (splitList (if s == "-" then "" else s) ",").filterMap fun t =>
    match t.splitOn ":" with
    | [l, c, cv] => some ⟨⟨l, none, none⟩, c, cv.toNat?.getD 2⟩
    | [l, c, cv, v] => some ⟨⟨l, v.toNat?, some 1⟩, c, cv.toNat?.getD 2⟩
    | _ => none

def labelStr (l : MLabel) : String :=
  l.guid ++ (match l.version with | some v => s!"::{v}_{l.reason.getD 0}" | none => "")

def errStr : Err → String
  | .bothOrNeither => "err bothOrNeither"
  | .labelMalformed => "err malformed"
  | .missingProvenance => "err missingProv"
  | .versionTooNew => "err tooNew"
  | .versionCompatibility => "err versionCompat"
  | _ => "err other"

def errClassOf (s : String) : ErrClass :=
  if s == "JumbfNotFound" then .jumbfNotFound
  else if s == "ProvenanceMissing" then .provenanceMissing
  else if s == "UnsupportedType" then .unsupportedType
  else if s == "UnrecognizedFileType" then .unrecognizedFileType
  else if s == "RemoteManifestUrl" then .remoteManifestUrl
  else if s == "RemoteManifestFetch" then .remoteManifestFetch
  else if s == "OperationCancelled" then .operationCancelled
  else .other

def b01 (b : Bool) : String := if b then "1" else "0"

/-- `kind|code|manifest|path|ingUri` (`-` = none), `;` separated -/
def parseStatuses (s : String) : List Status :=
  (splitList (if s == "-" then "" else s) ";").filterMap fun t =>
    match t.splitOn "|" with
    | [k, c, m, p, u] => some ⟨k.toNat?.getD 0, c, m, p, if u == "-" then none else some u⟩
    | _ => none

def handle (toks : List String) : String :=
  match toks with
  | "add" :: rest =>
    -- `read` = class of the stand-alone read (`ok` or the error class), `vers` = claim versions of
    -- the manifests of the stand-alone store (active last), `v` = version of the claim being built
    let v := (field rest "v").toNat?.getD 2
    let read := field rest "read"
    let vers := (splitList (if field rest "vers" == "-" then "" else field rest "vers") ",")
    let store : MStore := (List.range vers.length).zip vers |>.map fun (k, cv) =>
      ⟨⟨s!"M{k}", none, none⟩, s!"c{k}", cv.toNat?.getD 2⟩
    let out : ReadOutcome := if read == "ok" then .ok store [] else armOf (errClassOf read) []
    match addStream out with
    | none => "cancelled"
    | some i =>
      let sign := match addToClaim v false (fun _ => .notByRedaction) [] i with
        | .error e => errStr e
        | .ok _ => "ok"
      s!"rec active={b01 i.active.isSome} data={b01 i.data.isSome} results={b01 i.results.isSome} sign={sign}"
  | "merge" :: rest =>
    let v := (field rest "v").toNat?.getD 2
    match merge v (field rest "skip" == "1") (fun _ => .notByRedaction)
        (parseStore (field rest "cur")) (parseStore (field rest "inc")) with
    | .error e => errStr e
    | .ok s =>
      let items := s.map fun m => labelStr m.label ++ ":" ++ m.content
      let items := if field rest "sorted" == "1" then (items.toArray.qsort (· < ·)).toList else items
      "ok " ++ ",".intercalate items
  | "mergeall" :: rest =>
    -- the ingredient stores of a `to_claim` loop, `|` separated, into an empty ingredient store
    let v := (field rest "v").toNat?.getD 2
    match mergeAll v (field rest "skip" == "1") (fun _ => .notByRedaction)
        ((field rest "stores").splitOn "|" |>.map parseStore) [] with
    | .error e => errStr e
    | .ok s =>
      let items := s.map fun m => labelStr m.label ++ ":" ++ m.content
      let items := if field rest "sorted" == "1" then (items.toArray.qsort (· < ·)).toList else items
      "ok " ++ ",".intercalate items
  | "mix" :: rest =>
    -- a builder mixing ingredient sources: per ingredient `id/own` (identifier of its manifest data
    -- and the asset whose manifest its own store holds under it, `-` = not in its own store), and
    -- the Builder's store `id/asset,…`; the answer: whose manifest each ingredient carries
    let pairs (t : String) : RStore String :=
      (splitList (if t == "-" then "" else t) ",").filterMap fun x =>
        match x.splitOn "/" with
        | [k, v] => some (k, v)
        | _ => none
    let builder := pairs (field rest "builder")
    let carried := (splitList (field rest "ings") ",").map fun x =>
      match x.splitOn "/" with
      | [id, own] => (getResource (if own == "-" then [] else [(id, own)]) builder id).getD "none"
      | _ => "bad"
    "carry " ++ ",".intercalate carried
  | "fromstore" :: rest =>
    let a := field rest "active"
    let rep := fromStore (if a == "-" then none else some a) (parseStatuses (field rest "captured"))
      (parseStatuses (field rest "logged"))
    let items := rep.map fun s => s!"{s.kind}|{s.code}|{s.manifest}|{s.path}|{s.ingUri.getD "-"}"
    let items := (items.toArray.qsort (· < ·)).toList
    "rep " ++ (if items.isEmpty then "-" else ";".intercalate items)
  | _ => "bad-op"

end C2pa.C39
