import C2paModel.Base
/-
C39 — model of how an ingredient is captured and merged:

* `Ingredient::add_stream_internal` → `update_validation_status` (sdk/src/ingredient.rs): what is
  recorded from the stand-alone validation of the ingredient asset (`addStream`), one branch per
  `match result` arm;
* the v3 ingredient-assertion rule checked when the claim is built (`toAssertion`:
  `activeManifest` and `validationResults` must both be present or both absent);
* `Store::load_ingredient_to_claim` + `Claim::add_ingredient_data` /
  `replace_ingredient_or_insert` (sdk/src/store.rs, sdk/src/claim.rs): the merge of the
  ingredient's manifest store into the claim's ingredient store, with the label-conflict branch
  as coded (`merge`).

A manifest is its label (parsed by `manifest_label_to_parts` into guid / version / reason) and
an opaque content (claim + assertion + signature bytes; equality of contents is equality of
`get_manifest_box_hashes`). Not modelled: redaction-explained conflicts
(`manifest_differs_by_redaction` — the model's `merge` takes the answer of that function as a
parameter and keeps its three arms), OCSP capture, thumbnails.
-/
namespace C2pa.C39

/-- a manifest label as `manifest_label_to_parts` sees it (version/reason only appear on
relabelled manifests: `urn:c2pa:<guid>::<version>_<reason>`) -/
structure MLabel where
  guid : String
  version : Option Nat
  reason : Option Nat
  deriving DecidableEq, Repr

structure Man where
  label : MLabel
  content : String
  deriving DecidableEq, Repr

/-- a manifest store / the claim's ingredient store, in insertion order -/
abbrev MStore := List Man

def lookup : MStore → MLabel → Option String
  | [], _ => none
  | m :: ms, l => if m.label = l then some m.content else lookup ms l

/-- `Claim::replace_ingredient_or_insert` (a map keyed by label plus the insertion-ordered
label list) -/
def replaceOrInsert : MStore → Man → MStore
  | [], m => [m]
  | x :: xs, m => if x.label = m.label then m :: xs else x :: replaceOrInsert xs m

/-- validation results: (kind, code) entries; kind 0 = success, 1 = informational, 2 = failure -/
abbrev Results := List (Nat × String)

def failures (r : Results) : List String := (r.filter (·.1 == 2)).map (·.2)

/-- outcome of validating the ingredient asset on its own
(`Store::from_manifest_data_and_stream`) -/
inductive ReadOutcome
  /-- `JumbfNotFound` / `ProvenanceMissing` / `UnsupportedType` / "unrecognized file type" -/
  | noManifest
  /-- a store was produced; `results` = `ValidationResults::from_store(store, log)` -/
  | ok (store : MStore) (active : MLabel) (results : Results)
  /-- `RemoteManifestUrl` / `RemoteManifestFetch` -/
  | inaccessible
  /-- `OperationCancelled` -/
  | cancelled
  /-- any other `Err(e)`; `logged` = the statuses of the validation log -/
  | hardError (logged : Results)
  deriving DecidableEq, Repr

/-- what the `Ingredient` records -/
structure IngRec where
  active : Option MLabel
  data : Option MStore
  results : Option Results
  deriving DecidableEq, Repr

/-- `update_validation_status`; `none` = the call itself fails (`OperationCancelled`) -/
def addStream : ReadOutcome → Option IngRec
  | .noManifest => some ⟨none, none, none⟩
  | .ok store active results => some ⟨some active, some store, some results⟩
  | .inaccessible => some ⟨none, none, some [(2, "manifest.inaccessible")]⟩
  | .cancelled => none
  | .hardError logged => some ⟨none, none, some logged⟩

inductive Err
  | bothOrNeither      -- "Ingredient v3 activeManifest and validationResults must both be present or absent"
  | labelMalformed     -- OtherError("ingredient label malformed")
  | notFound
  deriving DecidableEq, Repr

/-- the v3 ingredient assertion: `(activeManifest, validationResults)` -/
def toAssertion (i : IngRec) : Except Err (Option MLabel × Option Results) :=
  if i.active.isSome == i.results.isSome then .ok (i.active, i.results) else .error .bothOrNeither

/-- how `manifest_differs_by_redaction` classifies a conflict -/
inductive RedactionKind
  | notByRedaction
  | onlyInClaim      -- redactions only on the claim's side: the incoming copy is dropped
  | onlyInIncoming   -- only on the incoming side: the incoming copy overwrites
  | both
  deriving DecidableEq, Repr

/-- labels of the incoming store that exist in the claim's ingredient store with another content -/
def conflicts (cur inc : MStore) : List Man :=
  inc.filter fun m => match lookup cur m.label with
    | some c => c != m.content
    | none => false

def maxVersion (s : MStore) : Option Nat :=
  match s.filterMap (·.label.version) with
  | [] => none
  | v :: vs => some (vs.foldl max v)

/-- the conflict loop of `load_ingredient_to_claim` (claim version > 1, resolution not skipped):
returns the claim's store (with relabelled copies added) and the labels to drop from the
incoming store -/
def resolve (kind : Man → RedactionKind) : List Man → MStore → List MLabel →
    Except Err (MStore × List MLabel)
  | [], cur, drop => .ok (cur, drop)
  | m :: ms, cur, drop =>
    match kind m with
    | .onlyInClaim => resolve kind ms cur (drop ++ [m.label])
    | .onlyInIncoming => resolve kind ms cur drop
    | .both => resolve kind ms cur drop
    | .notByRedaction =>
      match maxVersion cur with
      | none => .error .labelMalformed
      | some v =>
        let fixup : Man := { m with label := { m.label with version := some (v + 1), reason := some 1 } }
        resolve kind ms (replaceOrInsert cur fixup) drop

/-- `Store::load_ingredient_to_claim`: the claim's ingredient store afterwards -/
def merge (claimVersion : Nat) (skip : Bool) (kind : Man → RedactionKind) (cur inc : MStore) :
    Except Err MStore :=
  if claimVersion > 1 && !skip then
    match resolve kind (conflicts cur inc) cur [] with
    | .error e => .error e
    | .ok (cur', drop) =>
      .ok ((inc.filter fun m => !drop.contains m.label).foldl replaceOrInsert cur')
  else .ok (inc.foldl replaceOrInsert cur)

/-- adding the manifest stores of a list of ingredients, in order (`Builder::to_claim` loop) -/
def mergeAll (claimVersion : Nat) (skip : Bool) (kind : Man → RedactionKind) :
    List MStore → MStore → Except Err MStore
  | [], cur => .ok cur
  | s :: ss, cur =>
    match merge claimVersion skip kind cur s with
    | .error e => .error e
    | .ok cur' => mergeAll claimVersion skip kind ss cur'

/-! ### line protocol -/

def parseStore (s : String) : MStore :=
  (splitList (if s == "-" then "" else s) ",").filterMap fun t =>
    match t.splitOn ":" with
    | [l, c] => some ⟨⟨l, none, none⟩, c⟩
    | [l, c, v] => some ⟨⟨l, v.toNat?, some 1⟩, c⟩
    | _ => none

def labelStr (l : MLabel) : String :=
  l.guid ++ (match l.version with | some v => s!"::{v}_{l.reason.getD 0}" | none => "")

def handle (toks : List String) : String :=
  match toks with
  | "add" :: rest =>
    let src := field rest "kind"
    let out : ReadOutcome :=
      if src == "manifest" then .ok [⟨⟨"L", none, none⟩, "c"⟩] ⟨"L", none, none⟩ [(0, "claimSignature.validated")]
      else if src == "damaged" then .hardError []
      else if src == "remote" then .inaccessible
      else .noManifest
    match addStream out with
    | none => "cancelled"
    | some i =>
      match toAssertion i with
      | .error _ => "error"
      | .ok (a, r) => s!"ingredients=1 active={a.isSome} results={r.isSome}"
  | "pair" :: _ => "ingredients=2"
  | "merge" :: rest =>
    let v := (field rest "v").toNat?.getD 2
    match merge v (field rest "skip" == "1") (fun _ => .notByRedaction)
        (parseStore (field rest "cur")) (parseStore (field rest "inc")) with
    | .error .labelMalformed => "err malformed"
    | .error _ => "err other"
    | .ok s =>
      let items := s.map fun m => labelStr m.label ++ ":" ++ m.content
      let items := if field rest "sorted" == "1" then (items.toArray.qsort (· < ·)).toList else items
      "ok " ++ ",".intercalate items
  | _ => "bad-op"

end C2pa.C39
