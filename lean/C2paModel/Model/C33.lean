import C2paModel.Base
import C2paModel.Model.C04
/-
C33 — model of the CAWG identity-assertion decision logic:

* `IdentityAssertion::check_padding`, `SignerPayload::check_against_partial_claim`
  (sdk/src/identity/identity_assertion/{assertion,signer_payload}.rs): pad rule, the per-reference
  lookup (exact URL or URL with the absolute `/c2pa/<label>/` prefix removed), hash comparison,
  hard-binding rule, duplicate rule, which failures stop and which continue (the reader's
  status tracker continues after `failure(..)?`);
* the `sig_type` dispatch and code mapping of `IdentityAssertion::validate_partial_claim`
  (`cawg.x509.cose`: COSE parse / verify outcome, remapped credential codes, success codes);
* the state function and its tolerated-code set are C04's (`cawg.x509.` prefix only).

COSE parsing, signature verification, certificate profile / trust are facts supplied with the
input (oracles). URLs are ASCII character lists, hashes byte lists.
-/
namespace C2pa.C33

open C2pa.C04 (Code Kind)

abbrev Entry := Code × Kind

def failE (c : Code) : Entry := (c, .failure)
def succ (c : Code) : Entry := (c, .success)

def cPad : Code := "cawg.identity.pad.invalid".toList
def cMismatch : Code := "cawg.identity.assertion.mismatch".toList
def cDuplicate : Code := "cawg.identity.assertion.duplicate".toList
def cHardBinding : Code := "cawg.identity.hard_binding_missing".toList
def cSigTypeUnknown : Code := "cawg.identity.sig_type.unknown".toList
def cWellFormed : Code := "cawg.identity.well-formed".toList
def cSigValidated : Code := "cawg.x509.signature.validated".toList
def cSigMismatch : Code := "cawg.x509.signature.mismatch".toList

structure HUri where
  url : List Char
  hash : List Nat
  deriving DecidableEq, Repr

/-! #### the "absolute URL" workaround: remove the first `/c2pa/[^/]+/` -/

def c2paSeg : List Char := "/c2pa/".toList

/-- Non-empty run of non-`/` characters followed by `/`: returns what follows the `/`. -/
def afterLabel : List Char → Bool → Option (List Char)
  | [], _ => none
  | c :: cs, seen => if c == '/' then (if seen then some cs else none) else afterLabel cs true

/-- If `u` starts with `/c2pa/<label>/`, what follows. -/
def matchAt (u : List Char) : Option (List Char) :=
  if c2paSeg.isPrefixOf u then afterLabel (u.drop c2paSeg.length) false else none

/-- `ABSOLUTE_URL_PREFIX.replace(url, "")`: the leftmost match is removed. -/
def stripAbs : List Char → List Char
  | [] => []
  | c :: cs =>
    match matchAt (c :: cs) with
    | some rest => rest
    | none => c :: stripAbs cs

def urlMatches (claimUrl refUrl : List Char) : Bool :=
  claimUrl == refUrl || stripAbs claimUrl == refUrl

/-- part after the last `/` (`rsplit_once('/')`), `none` when there is no `/` -/
def lastLabel (u : List Char) : Option (List Char) :=
  if u.contains '/' then some ((u.reverse.takeWhile (· != '/')).reverse) else none

def isHardBindingRef (u : List Char) : Bool :=
  match lastLabel u with
  | some l => "c2pa.hash.".toList.isPrefixOf l
  | none => false

/-- The reference loop. `none` = early `return Err(AssertionMismatch)`; the log is kept. -/
def checkRefs (claim : List HUri) : List HUri → List Entry → Option Unit × List Entry
  | [], log => (some (), log)
  | r :: rest, log =>
    match claim.find? (fun a => urlMatches a.url r.url) with
    | some a =>
      if a.hash != r.hash then (none, log ++ [failE cMismatch])
      else checkRefs claim rest log
    | none => checkRefs claim rest (log ++ [failE cMismatch])

/-- duplicates: one entry per repeated occurrence -/
def dupLog : List (List Char) → List (List Char) → List Entry
  | [], _ => []
  | u :: rest, seen =>
    if seen.contains u then failE cDuplicate :: dupLog rest (u :: seen)
    else dupLog rest (u :: seen)

/-- `check_padding` with a continuing tracker. -/
def padLog (pad1 : List Nat) (pad2 : Option (List Nat)) : List Entry :=
  if !pad1.all (· == 0) then [failE cPad]
  else match pad2 with
    | some p => if !p.all (· == 0) then [failE cPad] else []
    | none => []

/-- `check_against_partial_claim`: `ok = false` is the early error return. -/
def checkAgainstClaim (refs claim : List HUri) : Bool × List Entry :=
  match checkRefs claim refs [] with
  | (none, log) => (false, log)
  | (some (), log) =>
    let hb := if !(refs.any fun r => isHardBindingRef r.url) then [failE cHardBinding] else []
    (true, log ++ hb ++ dupLog (refs.map (·.url)) [])

/-- Outcome of the COSE part for `cawg.x509.cose` (oracle): remapped credential entries logged
while verifying, and how it ended. -/
inductive SigEnd | verified | mismatch | otherError | parseError
  deriving DecidableEq, Repr

structure Sig where
  entries : List Entry   -- remapped `cawg.x509.*` entries (profile / trust)
  outcome : SigEnd
  deriving DecidableEq, Repr

inductive SigType | x509 | ica | other
  deriving DecidableEq, Repr

structure Identity where
  refs : List HUri
  sigType : SigType
  pad1 : List Nat
  pad2 : Option (List Nat)
  sig : Sig
  deriving DecidableEq, Repr

/-- `validate_partial_claim` (sync, `cawg.x509.cose` path; ICA is out of scope): result ok? and
the entries logged. -/
def validate (ia : Identity) (claim : List HUri) : Bool × List Entry :=
  let pl := padLog ia.pad1 ia.pad2
  match checkAgainstClaim ia.refs claim with
  | (false, l) => (false, pl ++ l)
  | (true, l) =>
    match ia.sigType with
    | .x509 =>
      match ia.sig.outcome with
      | .verified => (true, pl ++ l ++ ia.sig.entries ++ [succ cSigValidated, succ cWellFormed])
      | .mismatch => (false, pl ++ l ++ ia.sig.entries ++ [failE cSigMismatch])
      | .otherError => (false, pl ++ l ++ ia.sig.entries)
      | .parseError => (false, pl ++ l ++ ia.sig.entries)
    | .ica => (false, pl ++ l)
    | .other => (false, pl ++ l)   -- `Err(UnknownSignatureType)`; nothing is logged

def toCodes (l : List Entry) : C04.Codes :=
  l.foldl (fun c e => c.add { code := e.1, kind := e.2, uri := none }) {}

/-- State of the manifest: the identity entries plus `rest`, the entries of the C2PA checks. -/
def manifestState (ia : Identity) (claim : List HUri) (rest : List Entry) : C04.State :=
  C04.state { active := some (toCodes (rest ++ (validate ia claim).2)), deltas := none }

/-! ### line protocol -/

def parseHex (s : String) : List Nat := ((fromHex? s).getD []).map UInt8.toNat

/-- `url~hash` items separated by `,` (url has no `,`/`~`/space) -/
def parseUris (s : String) : List HUri :=
  if s == "-" then [] else (s.splitOn ",").filterMap fun t =>
    match t.splitOn "~" with
    | [u, h] => some ⟨u.toList, parseHex h⟩
    | _ => none

def parseEntries (s : String) : List Entry :=
  if s == "-" || s == "" then []
  else (s.splitOn ",").filterMap fun t =>
    match t.splitOn ":" with
    | [k, c] => some (c.toList,
        if k == "s" then Kind.success else if k == "i" then Kind.informational else Kind.failure)
    | _ => none

def kindStr : Kind → String
  | .success => "s" | .informational => "i" | .failure => "f"

def logStr (l : List Entry) : String :=
  if l.isEmpty then "-" else ",".intercalate (l.map fun e => kindStr e.2 ++ ":" ++ String.ofList e.1)

def insertSorted (x : String) : List String → List String
  | [] => [x]
  | y :: ys => if x ≤ y then x :: y :: ys else y :: insertSorted x ys

/-- the report groups entries by kind; compare as a sorted multiset -/
def sortedLogStr (l : List Entry) : String :=
  if l.isEmpty then "-"
  else ",".intercalate ((l.map fun e => kindStr e.2 ++ ":" ++ String.ofList e.1).foldr insertSorted [])

def parseIdentity (toks : List String) : Identity :=
  let st := field toks "sigtype"
  let oc := field toks "sig"
  { refs := parseUris (field toks "refs"),
    sigType := if st == "x509" then .x509 else if st == "ica" then .ica else .other,
    pad1 := parseHex (field toks "pad1"),
    pad2 := let p := field toks "pad2"; if p == "none" then none else some (parseHex p),
    sig := { entries := parseEntries (field toks "sigentries"),
             outcome := if oc == "ok" then .verified else if oc == "mismatch" then .mismatch
                        else if oc == "parse" then .parseError else .otherError } }

def handle (toks : List String) : String :=
  match toks with
  | "vpc" :: rest =>
    let o := validate (parseIdentity rest) (parseUris (field rest "claim"))
    (if o.1 then "ok" else "err") ++ " log=" ++ logStr o.2
  | "e2e" :: rest =>
    let ia := parseIdentity rest
    let claim := parseUris (field rest "claim")
    (manifestState ia claim (parseEntries (field rest "rest"))).str ++ " log=" ++
      sortedLogStr (validate ia claim).2
  | "strip" :: rest => String.ofList (stripAbs (field rest "u").toList)
  | _ => "bad-op"

end C2pa.C33
