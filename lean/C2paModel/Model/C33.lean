import C2paModel.Base
import C2paModel.Model.C04
import C2paModel.Gen.C33Remap
/-
C33 — model of the CAWG identity-assertion decision logic:

* `IdentityAssertion::check_padding`, `SignerPayload::check_against_partial_claim`
  (sdk/src/identity/identity_assertion/{assertion,signer_payload}.rs): pad rule, the per-reference
  lookup (exact URL or URL with the absolute `/c2pa/<label>/` prefix removed), hash comparison,
  hard-binding rule, duplicate rule, which failures stop and which continue (the reader's
  status tracker continues after `failure(..)?`);
* the `sig_type` dispatch and code mapping of `IdentityAssertion::validate_partial_claim`
  (`cawg.x509.cose`: COSE parse / verify outcome, success codes), and the rewrite of the C2PA
  codes the shared COSE verification logs into `cawg.x509.*` codes
  (`remap_x509_cose_status_codes`, sdk/src/identity/x509/x509_status_remap.rs; the table is
  regenerated from the source by translators/c33_remap.py, unlisted codes pass through);
* how the logged statuses reach the validation results (`Reader::post_validate` with a
  `CawgValidator`: the statuses of an ingredient's manifest carry the ingredient URI and land in
  that ingredient's delta; `Manifest::from_store`: active manifest);
* the state function, `add_status` and the tolerated-code set are C04's (`cawg.x509.` prefix only).

Whether the COSE structure parses, whether the signature verifies and *which* C2PA codes the
certificate profile / trust checks log are facts supplied with the input (oracles); what is done
with them is modelled. URLs are ASCII character lists, hashes byte lists.
-/
namespace C2pa.C33

open C2pa.C04 (Code Kind)

abbrev Entry := Code × Kind

def failE (c : Code) : Entry := (c, .failure)
def succ (c : Code) : Entry := (c, .success)

def cPad : Code := "cawg.identity.pad.invalid".toList
def cMismatch : Code := "cawg.identity.assertion.mismatch".toList
def cDuplicate : Code := "cawg.identity.assertion.duplicate".toList
def cHardBinding : Code := "cawg.identity.hard_binding_missing".toList
def cSigTypeUnknown : Code := "cawg.identity.sig_type.unknown".toList
def cWellFormed : Code := "cawg.identity.well-formed".toList
def cSigValidated : Code := "cawg.x509.signature.validated".toList
def cSigMismatch : Code := "cawg.x509.signature.mismatch".toList
/-- what `parse_cose_sign1` logs (C2PA code, before the remap) -/
def cClaimSigMismatch : Code := "claimSignature.mismatch".toList

structure HUri where
  url : List Char
  hash : List Nat
  deriving DecidableEq, Repr

/-! #### the "absolute URL" workaround: remove the first `/c2pa/[^/]+/` -/

def c2paSeg : List Char := "/c2pa/".toList

/-- Non-empty run of non-`/` characters followed by `/`: returns what follows the `/`. -/
def afterLabel : List Char → Bool → Option (List Char)
  | [], _ => none
  | c :: cs, seen => if c == '/' then (if seen then some cs else none) else afterLabel cs true

/-- If `u` starts with `/c2pa/<label>/`, what follows. -/
def matchAt (u : List Char) : Option (List Char) :=
  if c2paSeg.isPrefixOf u then afterLabel (u.drop c2paSeg.length) false else none

/-- `ABSOLUTE_URL_PREFIX.replace(url, "")`: the leftmost match is removed. -/
def stripAbs : List Char → List Char
  | [] => []
  | c :: cs =>
    match matchAt (c :: cs) with
    | some rest => rest
    | none => c :: stripAbs cs

def urlMatches (claimUrl refUrl : List Char) : Bool :=
  claimUrl == refUrl || stripAbs claimUrl == refUrl

/-- part after the last `/` (`rsplit_once('/')`), `none` when there is no `/` -/
def lastLabel (u : List Char) : Option (List Char) :=
  if u.contains '/' then some ((u.reverse.takeWhile (· != '/')).reverse) else none

def isHardBindingRef (u : List Char) : Bool :=
  match lastLabel u with
  | some l => "c2pa.hash.".toList.isPrefixOf l
  | none => false

/-- The reference loop. `none` = early `return Err(AssertionMismatch)`; the log is kept. -/
def checkRefs (claim : List HUri) : List HUri → List Entry → Option Unit × List Entry
  | [], log => (some (), log)
  | r :: rest, log =>
    match claim.find? (fun a => urlMatches a.url r.url) with
    | some a =>
      if a.hash != r.hash then (none, log ++ [failE cMismatch])
      else checkRefs claim rest log
    | none => checkRefs claim rest (log ++ [failE cMismatch])

/-- duplicates: one entry per repeated occurrence -/
def dupLog : List (List Char) → List (List Char) → List Entry
  | [], _ => []
  | u :: rest, seen =>
    if seen.contains u then failE cDuplicate :: dupLog rest (u :: seen)
    else dupLog rest (u :: seen)

/-- `check_padding` with a continuing tracker. -/
def padLog (pad1 : List Nat) (pad2 : Option (List Nat)) : List Entry :=
  if !pad1.all (· == 0) then [failE cPad]
  else match pad2 with
    | some p => if !p.all (· == 0) then [failE cPad] else []
    | none => []

/-- `check_against_partial_claim`: `ok = false` is the early error return. -/
def checkAgainstClaim (refs claim : List HUri) : Bool × List Entry :=
  match checkRefs claim refs [] with
  | (none, log) => (false, log)
  | (some (), log) =>
    let hb := if !(refs.any fun r => isHardBindingRef r.url) then [failE cHardBinding] else []
    (true, log ++ hb ++ dupLog (refs.map (·.url)) [])

/-! #### `remap_x509_cose_status_codes` -/

/-- The arms of the `match old_code` (generated from the source). -/
def remapTable : List (Code × Code) := Gen.remapTable.map fun p => (p.1.toList, p.2.toList)

/-- One log item: a listed code is replaced, any other code is left as it is (`_ => continue`). -/
def remap (c : Code) : Code :=
  match remapTable.find? (fun p => p.1 == c) with
  | some p => p.2
  | none => c

/-- The guard rewrites every item logged inside its scope; the kind is not touched. -/
def remapLog (l : List Entry) : List Entry := l.map fun e => (remap e.1, e.2)

/-- How the COSE part for `cawg.x509.cose` ended (oracle). -/
inductive SigEnd | verified | mismatch | otherError | parseError
  deriving DecidableEq, Repr

/-- `raw`: the statuses the shared COSE verification (`Verifier::verify_signature`: certificate
profile, trust) logged, with their C2PA codes, i.e. before the remap (oracle). -/
structure Sig where
  raw : List Entry
  outcome : SigEnd
  deriving DecidableEq, Repr

inductive SigType | x509 | ica | other
  deriving DecidableEq, Repr

structure Identity where
  refs : List HUri
  sigType : SigType
  pad1 : List Nat
  pad2 : Option (List Nat)
  sig : Sig
  deriving DecidableEq, Repr

/-- What is logged inside the remap guard's scope, before the rewrite.
* the COSE structure does not parse: `parse_cose_sign1` logs `claimSignature.mismatch` itself and
  nothing else runs;
* `verify_signature` fails with `SignatureMismatch`, or with any other error (no certificate chain,
  unparseable certificate, unsupported algorithm, …): `cawg.x509.signature.mismatch` is logged
  after whatever the profile / trust checks logged (follows the repaired code,
  fixes/C33-report-unverifiable-identity-signature.patch: before the repair the "any other error"
  arm logged nothing, and the assertion was skipped silently when the lower level had not logged
  either). -/
def guardScopeLog (s : Sig) : List Entry :=
  match s.outcome with
  | .verified => s.raw
  | .mismatch => s.raw ++ [failE cSigMismatch]
  | .otherError => s.raw ++ [failE cSigMismatch]
  | .parseError => [failE cClaimSigMismatch]

/-- `validate_partial_claim` (`cawg.x509.cose` path; ICA is out of scope; the `_async` twin is the
same code through `async_generic`): result ok? and the entries logged. -/
def validate (ia : Identity) (claim : List HUri) : Bool × List Entry :=
  let pl := padLog ia.pad1 ia.pad2
  match checkAgainstClaim ia.refs claim with
  | (false, l) => (false, pl ++ l)
  | (true, l) =>
    match ia.sigType with
    | .x509 =>
      match ia.sig.outcome with
      | .verified =>
        (true, pl ++ l ++ remapLog (guardScopeLog ia.sig) ++ [succ cSigValidated, succ cWellFormed])
      | _ => (false, pl ++ l ++ remapLog (guardScopeLog ia.sig))
    | .ica => (false, pl ++ l)
    | .other => (false, pl ++ l)   -- `Err(UnknownSignatureType)`; nothing is logged

def toCodes (l : List Entry) : C04.Codes :=
  l.foldl (fun c e => c.add { code := e.1, kind := e.2, uri := none }) {}

/-- State of the manifest: the identity entries plus `rest`, the entries of the C2PA checks
(`Manifest::from_store`: the identity assertion of the active manifest). -/
def manifestState (ia : Identity) (claim : List HUri) (rest : List Entry) : C04.State :=
  C04.state { active := some (toCodes (rest ++ (validate ia claim).2)), deltas := none }

/-- A logged entry as a validation status: `uri` is the ingredient URI that was on the tracker's
stack while the entry was logged (`none` = logged for the active manifest). -/
def toStatus (uri : Option (List Char)) (e : Entry) : C04.Status :=
  { code := e.1, kind := e.2, uri := uri }

/-- `Reader::post_validate`: every status of the validator's log is added, in order, to the
results the reader already holds. -/
def postValidate (base : C04.Results) (uri : Option (List Char)) (log : List Entry) : C04.Results :=
  (log.map (toStatus uri)).foldl C04.addStatus base

/-- Results after CAWG post-validation of one identity assertion found in the active manifest
(`uri = none`) or in the manifest of the ingredient `uri`. -/
def manifestResultsAt (ia : Identity) (claim : List HUri) (base : C04.Results)
    (uri : Option (List Char)) : C04.Results :=
  postValidate base uri (validate ia claim).2

def manifestStateAt (ia : Identity) (claim : List HUri) (base : C04.Results)
    (uri : Option (List Char)) : C04.State :=
  C04.state (manifestResultsAt ia claim base uri)

/-! #### several identity assertions in one pass (one status tracker)

`Reader::post_validate` creates one tracker and `walk_manifest` hands it to the validator for every
identity assertion of the active manifest and then of every ingredient manifest;
`Manifest::from_store` uses the store's validation log. `validate_partial_claim` only *appends* to
the tracker it is given: nothing it logs, and nothing it decides, depends on what is already there. -/

/-- one assertion validated on a tracker that already holds `tr` -/
def validateIn (tr : List Entry) (ia : Identity) (claim : List HUri) : Bool × List Entry :=
  ((validate ia claim).1, tr ++ (validate ia claim).2)

/-- the tracker threaded through a pass -/
def validateThreaded : List Entry → List (Identity × List HUri) → List Entry
  | tr, [] => tr
  | tr, x :: xs => validateThreaded (validateIn tr x.1 x.2).2 xs

/-- what each assertion of the pass contributes (result and the slice of the tracker it wrote) -/
def passSlices (xs : List (Identity × List HUri)) : List (Bool × List Entry) :=
  xs.map fun x => validate x.1 x.2

/-- `Reader::post_validate` over a pass: the slices, each with the ingredient URI that was on the
tracker's stack, are added to the results in tracker order. -/
def postValidateMany (base : C04.Results)
    (xs : List (Option (List Char) × Identity × List HUri)) : C04.Results :=
  xs.foldl (fun r x => postValidate r x.1 (validate x.2.1 x.2.2).2) base

/-! ### line protocol -/

def parseHex (s : String) : List Nat := ((fromHex? s).getD []).map UInt8.toNat

/-- the request is answered only when every hex field parses (no silent default) -/
def hexOk (s : String) : Bool := (fromHex? s).isSome

def urisOk (s : String) : Bool :=
  s == "-" || (s.splitOn ",").all fun t =>
    match t.splitOn "~" with
    | [_, h] => hexOk h
    | _ => false

def entriesOk (s : String) : Bool :=
  s == "-" || (s.splitOn ",").all fun t =>
    match t.splitOn ":" with
    | [k, _] => k == "s" || k == "i" || k == "f"
    | _ => false

/-- `url~hash` items separated by `,` (url has no `,`/`~`/space) -/
def parseUris (s : String) : List HUri :=
  if s == "-" then [] else (s.splitOn ",").filterMap fun t =>
    match t.splitOn "~" with
    | [u, h] => some ⟨u.toList, parseHex h⟩
    | _ => none

def parseEntries (s : String) : List Entry :=
  if s == "-" || s == "" then []
  else (s.splitOn ",").filterMap fun t =>
    match t.splitOn ":" with
    | [k, c] => some (c.toList,
        if k == "s" then Kind.success else if k == "i" then Kind.informational else Kind.failure)
    | _ => none

def kindStr : Kind → String
  | .success => "s" | .informational => "i" | .failure => "f"

def logStr (l : List Entry) : String :=
  if l.isEmpty then "-" else ",".intercalate (l.map fun e => kindStr e.2 ++ ":" ++ String.ofList e.1)

def insertSorted (x : String) : List String → List String
  | [] => [x]
  | y :: ys => if x ≤ y then x :: y :: ys else y :: insertSorted x ys

/-- the report groups entries by kind; compare as a sorted multiset -/
def sortedLogStr (l : List Entry) : String :=
  if l.isEmpty then "-"
  else ",".intercalate ((l.map fun e => kindStr e.2 ++ ":" ++ String.ofList e.1).foldr insertSorted [])

def parseIdentity (toks : List String) : Identity :=
  let st := field toks "sigtype"
  let oc := field toks "sig"
  { refs := parseUris (field toks "refs"),
    sigType := if st == "x509" then .x509 else if st == "ica" then .ica else .other,
    pad1 := parseHex (field toks "pad1"),
    pad2 := let p := field toks "pad2"; if p == "none" then none else some (parseHex p),
    sig := { raw := parseEntries (field toks "sigraw"),
             outcome := if oc == "ok" then .verified else if oc == "mismatch" then .mismatch
                        else if oc == "parse" then .parseError else .otherError } }

def requestOk (toks : List String) : Bool :=
  urisOk (field toks "refs") && urisOk (field toks "claim") && hexOk (field toks "pad1")
    && (field toks "pad2" == "none" || hexOk (field toks "pad2"))
    && entriesOk (field toks "sigraw")
    && (field toks "sigtype" == "x509" || field toks "sigtype" == "ica" || field toks "sigtype" == "other")
    && (field toks "sig" == "ok" || field toks "sig" == "mismatch" || field toks "sig" == "parse"
        || field toks "sig" == "other")

/-- deltas: `-` (none), `[]`, or `uri~s;i;f` items separated by `|` -/
def parseBase (toks : List String) : C04.Results :=
  let a := field toks "A"
  let d := field toks "D"
  { active := if a == "-" then none else some (C04.parseSC a)
    deltas :=
      if d == "-" then none
      else if d == "[]" then some []
      else some ((d.splitOn "|").map fun e =>
        match e.splitOn "~" with
        | [u, sc] => { uri := u.toList, codes := C04.parseSC sc }
        | _ => { uri := [], codes := {} }) }

def baseStr (r : C04.Results) : String :=
  let a := match r.active with | none => "-" | some c => C04.scStr c
  let d := match r.deltas with
    | none => "-"
    | some [] => "[]"
    | some ds => "|".intercalate (ds.map fun d => String.ofList d.uri ++ "~" ++ C04.scStr d.codes)
  "A=" ++ a ++ " D=" ++ d

/-- the tokens `i.key=value` of assertion `i`, prefix removed -/
def sub (toks : List String) (i : Nat) : List String :=
  let pre := toString i ++ "."
  toks.filterMap fun t => if pre.isPrefixOf t then some ((t.drop pre.length).toString) else none

def handle (toks : List String) : String :=
  match toks with
  | "vpc" :: rest =>
    if !requestOk rest then "bad-input" else
    let o := validate (parseIdentity rest) (parseUris (field rest "claim"))
    (if o.1 then "ok" else "err") ++ " log=" ++ logStr o.2
  | "e2e" :: rest =>
    if !requestOk rest || !entriesOk (field rest "rest") then "bad-input" else
    let ia := parseIdentity rest
    let claim := parseUris (field rest "claim")
    (manifestState ia claim (parseEntries (field rest "rest"))).str ++ " log=" ++
      sortedLogStr (validate ia claim).2
  | "e2ei" :: rest =>
    -- identity assertion in the manifest `iuri` names (`-`: the active manifest), validated by
    -- `Reader::post_validate_async(&CawgValidator)` on top of the results `A=`/`D=`
    if !requestOk rest then "bad-input" else
    let ia := parseIdentity rest
    let claim := parseUris (field rest "claim")
    let u := field rest "iuri"
    let r := manifestResultsAt ia claim (parseBase rest) (if u == "-" then none else some u.toList)
    (C04.state r).str ++ " " ++ baseStr r
  | "seq" :: rest =>
    -- `n` assertions (fields prefixed `0.`, `1.`, …) validated one after the other on ONE tracker;
    -- the reply lists, per assertion, the result and the slice of the tracker it wrote
    let n := (field rest "n").toNat?.getD 0
    let subs := (List.range n).map (sub rest)
    if !subs.all requestOk then "bad-input" else
    " / ".intercalate ((passSlices (subs.map fun t => (parseIdentity t, parseUris (field t "claim")))).map
      fun o => (if o.1 then "ok" else "err") ++ " log=" ++ logStr o.2)
  | "e2em" :: rest =>
    -- a pass of `post_validate_async(&CawgValidator)` over `n` identity assertions in different
    -- manifests (`i.iuri`), on top of the results `A=`/`D=`
    let n := (field rest "n").toNat?.getD 0
    let subs := (List.range n).map (sub rest)
    if !subs.all requestOk then "bad-input" else
    let r := postValidateMany (parseBase rest) (subs.map fun t =>
      let u := field t "iuri"
      (if u == "-" then none else some u.toList, parseIdentity t, parseUris (field t "claim")))
    (C04.state r).str ++ " " ++ baseStr r
  | "strip" :: rest => String.ofList (stripAbs (field rest "u").toList)
  | "remap" :: rest => String.ofList (remap (field rest "c").toList)
  | _ => "bad-op"

end C2pa.C33
