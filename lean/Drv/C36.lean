import C2paModel.Model.C36
def main : IO Unit := C2pa.runDriver C2pa.C36.handle
