import C2paModel.Model.C23
def main : IO Unit := C2pa.runDriver C2pa.C23.handle
