import C2paModel.Model.C23
import C2paModel.Gen.C23Sites
def main : IO Unit := C2pa.runDriver (C2pa.C23.handleWith C2pa.C23.Gen.sites)
