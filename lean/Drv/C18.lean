import C2paModel.Model.C18
def main : IO Unit := C2pa.runDriver C2pa.C18.handle
