import C2paModel.Model.C16
def main : IO Unit := C2pa.runDriver C2pa.C16.handle
