import C2paModel.Model.C13
def main : IO Unit := C2pa.runDriver C2pa.C13.handle
