import C2paModel.Model.C03
def main : IO Unit := C2pa.runDriver C2pa.C03.handle
