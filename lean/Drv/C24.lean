import C2paModel.Model.C24
def main : IO Unit := C2pa.runDriver C2pa.C24.handle
