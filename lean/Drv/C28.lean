import C2paModel.Model.C28
def main : IO Unit := C2pa.runDriver C2pa.C28.handle
