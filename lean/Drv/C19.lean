import C2paModel.Model.C19
def main : IO Unit := C2pa.runDriver C2pa.C19.handle
