import C2paModel.Model.C40
import C2paModel.Gen.C40Sites
def main : IO Unit := C2pa.runDriver (C2pa.C40.handleWith
  { functions := C2pa.C40.Gen.functions, hand := C2pa.C40.Gen.handPairs,
    cross := C2pa.C40.Gen.crossScope, orphans := C2pa.C40.Gen.asyncOrphans })
