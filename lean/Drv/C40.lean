import C2paModel.Model.C40
def main : IO Unit := C2pa.runDriver C2pa.C40.handle
