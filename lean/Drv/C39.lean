import C2paModel.Model.C39
def main : IO Unit := C2pa.runDriver C2pa.C39.handle
