import C2paModel.Model.C14
def main : IO Unit := C2pa.runDriver C2pa.C14.handle
