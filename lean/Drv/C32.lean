import C2paModel.Model.C32
def main : IO Unit := C2pa.runDriver C2pa.C32.handle
