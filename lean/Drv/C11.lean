import C2paModel.Model.C11
import C2paModel.Gen.C11Table
def main : IO Unit := C2pa.runDriver (C2pa.C11.handleWith C2pa.C11.Gen.table C2pa.C11.Gen.readers)
