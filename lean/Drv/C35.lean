import C2paModel.Model.C35
def main : IO Unit := C2pa.runDriver C2pa.C35.handle
