import C2paModel.Model.C37
def main : IO Unit := C2pa.runDriver C2pa.C37.handle
