import C2paModel.Model.C17
def main : IO Unit := C2pa.runDriver C2pa.C17.handle
