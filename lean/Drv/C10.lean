import C2paModel.Model.C10
def main : IO Unit := C2pa.runDriver C2pa.C10.handle
