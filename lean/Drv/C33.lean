import C2paModel.Model.C33
def main : IO Unit := C2pa.runDriver C2pa.C33.handle
