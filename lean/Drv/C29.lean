import C2paModel.Model.C29
def main : IO Unit := C2pa.runDriver C2pa.C29.handle
