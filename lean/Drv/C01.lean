import C2paModel.Model.C01
def main : IO Unit := C2pa.runDriver C2pa.C01.handle
