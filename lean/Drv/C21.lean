import C2paModel.Model.C21
def main : IO Unit := C2pa.runDriver C2pa.C21.handle
