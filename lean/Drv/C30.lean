import C2paModel.Model.C30Scan
def main : IO Unit := C2pa.runDriver C2pa.C30.handleAll
