import C2paModel.Model.C30
def main : IO Unit := C2pa.runDriver C2pa.C30.handle
