import C2paModel.Model.C27
def main : IO Unit := C2pa.runDriver C2pa.C27.handle
