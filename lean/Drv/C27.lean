import C2paModel.Model.C26
def main : IO Unit := C2pa.runDriver C2pa.C26.handle27
