import C2paModel.Model.C15
def main : IO Unit := C2pa.runDriver C2pa.C15.handle
