import C2paModel.Model.C06
def main : IO Unit := C2pa.runDriver C2pa.C06.handle
