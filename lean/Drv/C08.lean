import C2paModel.Model.C07
def main : IO Unit := C2pa.runDriver C2pa.C07.handle
