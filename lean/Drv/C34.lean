import C2paModel.Model.C34
def main : IO Unit := C2pa.runDriver C2pa.C34.handle
