import C2paModel.Model.C31
def main : IO Unit := C2pa.runDriver C2pa.C31.handle
