import C2paModel.Model.C04
def main : IO Unit := C2pa.runDriver C2pa.C04.handle
