import C2paModel.Model.C04Store
def main : IO Unit := C2pa.runDriver C2pa.C04.handleStore
