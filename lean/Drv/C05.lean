import C2paModel.Model.C05
def main : IO Unit := C2pa.runDriver C2pa.C05.handle
