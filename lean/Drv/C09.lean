import C2paModel.Model.C07
import C2paModel.Model.C09Bmff
/-- C09 driver: the embedding algebra ops of Model/C07 plus the BMFF offset-table ops
(`adjoff`, `bmffadj`, `oracle`) of Model/C09Bmff. -/
def c09Handle (toks : List String) : String :=
  match toks with
  | "adjoff" :: _ => C2pa.C09Bmff.handle toks
  | "bmffadj" :: _ => C2pa.C09Bmff.handle toks
  | "oracle" :: _ => C2pa.C09Bmff.handle toks
  | _ => C2pa.C07.handle toks
def main : IO Unit := C2pa.runDriver c09Handle
