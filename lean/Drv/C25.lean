import C2paModel.Model.C25
def main : IO Unit := C2pa.runDriver C2pa.C25.handle
