import C2paModel.Model.C20
def main : IO Unit := C2pa.runDriver C2pa.C20.handle
