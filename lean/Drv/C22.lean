import C2paModel.Model.C22
def main : IO Unit := C2pa.runDriver C2pa.C22.handle
