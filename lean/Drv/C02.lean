import C2paModel.Model.C02
def main : IO Unit := C2pa.runDriver C2pa.C02.handle
