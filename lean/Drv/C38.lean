import C2paModel.Model.C38
def main : IO Unit := C2pa.runDriver C2pa.C38.handle
