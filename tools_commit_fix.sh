#!/bin/bash
# usage: tools_commit_fix.sh <patchfile> <<< "commit message"   — stages the NON-test hunks of the patch into the index,
# removes test-adding hunks from the working tree, commits.  Prints the new hash.
set -e
P=$1; MSG=$(cat)
cd /repo
/verif/tools_split_test_hunks.py "$P" /tmp/_code.patch /tmp/_tests.patch >/dev/null
git apply --cached --recount /tmp/_code.patch
if [ -s /tmp/_tests.patch ]; then git apply -R --recount /tmp/_tests.patch || echo "WARN: could not remove test hunks from working tree"; fi
git commit -q -m "$MSG"
git log --oneline | head -1
