#!/bin/bash
# usage: tools_commit_hook.sh <cxx> "<message>" [extra files...]
# Commits /repo/sdk/src/verif_hooks/<cxx>.rs, the given extra files, and a version of
# verif_hooks/mod.rs that contains only the `pub mod` lines of already-committed modules + <cxx>
# (other agents' uncommitted hook modules stay in the working tree, unstaged).
set -e
cd /repo
mod=$1; msg=$2; shift 2
git add sdk/src/verif_hooks/$mod.rs "$@"
committed=$(git show HEAD:sdk/src/verif_hooks/mod.rs | grep '^pub mod' || true)
{
  git show HEAD:sdk/src/verif_hooks/mod.rs | grep -v '^pub mod'
  { echo "$committed"; echo "pub mod $mod;"; } | grep . | sort -u
} > /tmp/mod_rs_staged.$$
blob=$(git hash-object -w /tmp/mod_rs_staged.$$)
rm -f /tmp/mod_rs_staged.$$
git update-index --cacheinfo 100644,$blob,sdk/src/verif_hooks/mod.rs
git commit -q -m "$msg"
git log --oneline | head -1
